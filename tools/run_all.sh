#!/bin/sh
# runs every claimed check (quick tier by default) on the current tree and validates manifest + evidence
tier=${1:-quick}
cd /verif
rc=0
for p in C01 C07 C09 C10 C12 C18 C19 C20 C14 C02 C03 C04 C05 C06 C08 C11 C13 C15 C16 C17; do
  out=$(./check run $p --tier $tier 2>&1); r=$?
  echo "$p rc=$r $(echo "$out" | tail -1)"
  [ $r -ne 0 ] && { echo "$out" | grep "VIOLATION\|clause\|MACHINERY" | head -5; rc=1; }
done
tools/validate.sh | tail -1
exit $rc
