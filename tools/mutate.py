#!/venv/bin/python
"""Development aid: apply a one-line textual mutation to /repo, run checks, undo it.
usage: tools/mutate.py <file relative to /repo> <old> <new> -- C01 C07 ...
Never leaves /repo modified (git checkout -- . in a finally)."""
import subprocess
import sys
import os

def main():
    args = sys.argv[1:]
    i = args.index('--')
    f, old, new = args[:3]
    props = args[i + 1:]
    p = os.path.join('/repo', f)
    s = open(p).read()
    if s.count(old) < 1:
        print('pattern not found'); return 2
    try:
        open(p, 'w').write(s.replace(old, new, 1))
        for pr in props:
            r = subprocess.run(['/verif/check', 'run', pr], cwd='/verif', capture_output=True, text=True)
            tail = [l for l in r.stdout.splitlines() if l.startswith(('VIOLATION', 'KNOWN', '  clause', 'MACHINERY'))]
            print(pr, 'rc=%d' % r.returncode, '|', ' ; '.join(tail[:6]))
    finally:
        subprocess.run(['git', '-C', '/repo', 'checkout', '--', '.'])
    return 0

sys.exit(main())
