#!/venv/bin/python
"""Regenerates MANIFEST.json from the table below (keeps it schema-valid)."""
import json
import os
import sys
sys.path.insert(0, os.path.dirname(os.path.dirname(os.path.abspath(__file__))))

FLOOR_NOTE = 'Trusted base: TLC 1.8 / SANY, the Python tracer, builder and projection in /verif/harness (run-time wrapping of Environment.step and Part.__init__, tie-break shim), the configuration renderer. Exhaustive only within the bounds of the design family (small lines, horizon <= 16 ticks); larger scenario families are covered by trace validation. Times on an exact grid of 0.25 time units.'
NOTE_COMMON = ('Trusted base: TLC 1.8 / SANY, the Python tracer and projection in /verif/harness, the tie-break shim '
               '(replaces the random module seen by simprocesd.model.simulation). Exhaustive only within the stated '
               'bounds; times on an exact integer/dyadic grid.')

CLAIMS = {
 'C01': dict(engine='kernel', ref='DESIGN.md 6 (C01), 3.1',
   text='TLC model-checks the closed kernel specification KernelMC (every interleaving of schedule/step/run/pause/unpause/cancel '
        'issued from outside and from event bodies, every tie-break) against the dispatch-order, clock, at-most-once and '
        'run-completeness properties; TLC -simulate behaviours of that specification are replayed on the real Environment with '
        'forced tie-break weights, seeded random sequences are added, and TLC validates every recorded call and dispatch against '
        'the operators of Kernel.tla evaluated on the logged pre-state. Model checking is the right level: the property '
        'quantifies over schedules, which TLC enumerates, and the binding shows the code follows the specification.',
   technique='TLA+ closed spec model-checked with TLC + TLC trace validation of real Environment runs (spec behaviours replayed with forced tie-breaks)'),
 'C07': dict(engine='kernel', ref='DESIGN.md 6 (C07), 3.1',
   text='Same pipeline as C01; the pause/unpause/cancel operators of Kernel.tla are the oracle. Design level: '
        'UnpausePreservesDelay, PausedNeverRun, CancelledNeverRuns, CancelIsForever, NothingVanishes over all interleavings '
        'at non-zero times with nested pauses; code level: each recorded pause/unpause/cancel call (from outside or from an '
        'event body) must map the logged pre-state to the logged post-state exactly as the operator prescribes.',
   technique='TLA+ closed spec model-checked with TLC + TLC trace validation of real Environment runs'),
 'C09': dict(engine='pools', ref='DESIGN.md 6 (C09), 3.3',
   text='TLC model-checks the closed pool specification PoolsMC (every sequence of add/remove capacity before and after initialisation, '
        'single and multi-entry reserve with zero, negative and unknown entries, full, partial, repeated and invalid release, merge, waiting '
        'requests whose callbacks reserve, release and register) against usage = sum of holdings, non-negative capacity, over-commitment '
        'only after an explicit reduction; the behaviours TLC generates and longer seeded random sequences are executed on the real '
        'ResourceManager / ReservedResources bound to a real Environment, and TLC validates every recorded call against the relations '
        'of PoolsTrace.tla (succeeds iff fits, takes exactly, failed or erroneous calls change nothing, release gives back exactly, merge '
        'keeps usage) evaluated on the logged pre-state.',
   technique='TLA+ closed spec model-checked with TLC + TLC trace validation of real ResourceManager runs (spec behaviours replayed on the code)'),
 'C10': dict(engine='pools', ref='DESIGN.md 6 (C10), 3.3',
   text='Same pipeline as C09. Design level: callbacks at most once, clock advances only when no feasible request waits, every registration, '
        'capacity change and release leaves a check pending, over all interleavings including calls made by callbacks. Code level: for every '
        'dispatched event of the real Environment the callbacks that ran are logged with the pool as each found and left it; TLC checks that '
        'each was feasible at that moment, that they ran in registration order, exactly once, with the manager and a copy of the request, that '
        'skipped waiters did not fit when scanned, and that no feasible waiter is left when the clock advances.',
   technique='TLA+ closed spec model-checked with TLC + TLC trace validation of real ResourceManager/Environment runs'),
 'C12': dict(engine='maint', ref='DESIGN.md 6 (C12), 3.3',
   text='TLC model-checks the closed maintainer specification MaintMC (every request stream over three scripted targets with needed '
        'capacities 0..3, durations including 0 and durations that change between request and start, duplicates, bursts in one instant, '
        'requests issued from inside start/end hooks; maintainer capacities 1, 2, 3 and unbounded; every tie-break between simultaneous '
        'events) against capacity, one-order-per-target, exact duration, cost-only-at-start and no-startable-order-left-when-time-advances; '
        'the behaviours TLC generates (under several tie-break seeds) and longer random streams are executed on the real Maintainer bound '
        'to a real System, and TLC validates every recorded request and dispatched event against the relations of MaintTrace.tla '
        '(return value, greedy in-order scan, hooks once, records, cost, exact duration) on the logged pre-state; the C12.Floor* clauses '
        '(capacity, one order per target, no identical order twice, nothing startable left when time advances) are checked on the closed '
        'floor specification and on every recorded step of the factory-floor traces, where orders come from scripts and from the '
        'monitoring system.',
   technique='TLA+ closed spec model-checked with TLC + TLC trace validation of real Maintainer runs'),
 'C18': dict(engine='sched', ref='DESIGN.md 6 (C18), 3.3',
   text='TLC model-checks the closed scheduler specification SchedMC (every timetable of a bounded family with repeated states and '
        'zero / quarter-unit durations, cyclical, non-cyclical or unspecified, register / unregister calls before the run, between '
        'runs and from other events at higher and lower priority, every tie-break) against state = timetable state whenever time '
        'advances, k-th record at the k-th prefix-sum time, actions once per registered object in registration order; the behaviours '
        'and longer random scripts are executed on the real ActionScheduler + System and TLC validates every recorded call and '
        'dispatched event against SchedTrace.tla, whose expectations come from the timetable alone and from the registry as the '
        'public calls define it; the C18.Floor* clauses (state = timetable state and targets blocked accordingly whenever time '
        'advances) are checked on the floor traces with operating schedules attached to devices.',
   technique='TLA+ closed spec model-checked with TLC + TLC trace validation of real ActionScheduler runs'),
 'C19': dict(engine='sensors', ref='DESIGN.md 6 (C19), 3.3',
   text='TLC model-checks the closed sensor specification SensorsMC (intervals, data capacities, sensing intervals, a probed object '
        'changing in place, callbacks and the monitoring system added before / between runs and twice) against bounded aligned series, '
        'k-th periodic measurement at k intervals, first-then-every-(n+1)-th part, stored values never changing afterwards; the '
        'behaviours and random scripts (failures of the observed processor, non-grid intervals) run on the real PeriodicSensor / '
        'OutputPartSensor / Cms with a real line (also sense() called by hand, and lists kept by callbacks), and TLC validates every '
        'recorded step against SensorsTrace.tla; the C19.Floor* clauses of FloorObs.tla are checked on the closed floor specification '
        '(FloorMC) and on every recorded step of the factory-floor traces (machines with output-part and periodic sensors and a '
        'monitoring system requesting work orders, with failures and blocked inputs).',
   technique='TLA+ closed spec model-checked with TLC + TLC trace validation of real sensor runs'),
 'C20': dict(engine='lifecycle', ref='DESIGN.md 6 (C20), 3.3',
   text='TLC model-checks the closed lifecycle specification LifecycleMC (system creations, asset creations before the first run, '
        'between runs and from inside events, simulate calls on current and superseded systems, look-ups with all filter combinations) '
        'against initialised-at-most-once, initialised-once-simulated, registration-is-forever and only-the-latest-runs; the behaviours '
        'over all asset kinds (also user-defined assets that create assets while being initialised) and random scripts run on the real System and asset classes (Asset.initialize wrapped to count '
        'calls) and TLC validates every recorded line against LifecycleTrace.tla; for every kind a late-created asset is compared with '
        'its twin created before the start (recorded data, counters, callback logs).',
   technique='TLA+ closed spec model-checked with TLC + TLC trace validation of real System/asset lifecycle scripts + late-vs-twin scenario pairs'),
 'C02': dict(engine='floor', ref='DESIGN.md 3.2, 6', note=FLOOR_NOTE,
   text='Observer C02 of FloorObs.tla (every leaf part occurs exactly once among device slots, buffer contents, batches in progress, sink deliveries and reported losses; single-slot devices; sink counters; part budget by the documented rule; losses only by failures) is checked by TLC on every step of the closed specification FloorMC (every tie-break order of every configuration of the design family: serial, parallel, resources, gates, batches, targeted fault scripts) and on every recorded step of the real package over the larger scenario families; the closed specification is bound to the code by step-by-step state comparison and by replaying TLC behaviours with forced dispatch order.',
   technique='TLA+ closed spec Floor.tla model-checked with TLC over configuration families (all tie-breaks) + TLC trace validation of real runs against the property observers FloorObs.tla (sampled TLC behaviours replayed on the code with forced dispatch order)'),
 'C03': dict(engine='floor', ref='DESIGN.md 3.2, 6', note=FLOOR_NOTE,
   text='Observer C03: at every recorded or specified state after which the clock advances, no device holds a ready item that one of its downstream devices would take (WouldTake mirrors acceptance without side effects: blocking, failure, capacity, resources, gate predicates), no waiting resource request is feasible, and the number of events within one instant is bounded; a run that raises or does not return is reported. Checked by TLC on the closed specification over all tie-breaks and on recorded runs with scripted failures, shutdowns, blocking, capacity and budget changes, between-run calls.',
   technique='TLA+ closed spec Floor.tla model-checked with TLC over configuration families (all tie-breaks) + TLC trace validation of real runs against the property observers FloorObs.tla (sampled TLC behaviours replayed on the code with forced dispatch order)'),
 'C04': dict(engine='floor', ref='DESIGN.md 3.2, 6', note=FLOOR_NOTE,
   text='Observer C04 evaluates the blocking-after-service recurrence in TLA+ from the arrival times observed so far: the k-th arrival at every station of a serial line must equal max(A(j-1,k)+c, A(j,k-1), A(j+1,k-K)), nothing may be late at the end of the run, and the sink count equals the reference. Checked by TLC on all tie-break orders of the serial lines of the design family and on every recorded arrival of several hundred serial lines (kinds, cycle times and delays including 0 and quarter units, capacities 1..infinity, budgets, horizons).',
   technique='TLA+ closed spec Floor.tla model-checked with TLC over configuration families (all tie-breaks) + TLC trace validation of real runs against the property observers FloorObs.tla (sampled TLC behaviours replayed on the code with forced dispatch order)'),
 'C05': dict(engine='floor', ref='DESIGN.md 3.2, 6', note=FLOOR_NOTE,
   text='Observer C05 (capacity counting every part of a batch, level = content, only heads leave and only after the minimum delay, arrivals stamped at arrival) checked by TLC on every step of the closed specification and of recorded runs with several producers and consumers, batches, blocked / failed / resource-starved consumers.',
   technique='TLA+ closed spec Floor.tla model-checked with TLC over configuration families (all tie-breaks) + TLC trace validation of real runs against the property observers FloorObs.tla (sampled TLC behaviours replayed on the code with forced dispatch order)'),
 'C06': dict(engine='floor', ref='DESIGN.md 3.2, 6', note=FLOOR_NOTE,
   text='Observer C06 keeps the operational time still owed to each part (cycle time in effect after the receive callbacks plus one-shot offsets booked by public calls, floored at zero; shut-down time does not count) and checks: never late, never early, zero-time finishes only when nothing is owed, failures lose rather than finish, one part at a time, sources need their full cycle, sinks keep their spacing. Checked by TLC on the closed specification (pause / cancel / unpause of the cycle timer under every tie-break) and on recorded runs including double shutdowns within one part and failures during maintenance.',
   technique='TLA+ closed spec Floor.tla model-checked with TLC over configuration families (all tie-breaks) + TLC trace validation of real runs against the property observers FloorObs.tla (sampled TLC behaviours replayed on the code with forced dispatch order)'),
 'C08': dict(engine='floor', ref='DESIGN.md 3.2, 6', note=FLOOR_NOTE,
   text='Observer C08 (history follows configured connections, ends at the holder, only grows, leaves share the batch history, gates respected, blocked inputs refuse, sinks collect in arrival order, the longest idle single-slot device receives) with the route graph taken from the configuration; checked by TLC on the closed specification and on recorded runs with gates, junctions, rework loops, batches, shared-machine groups (re-entrant, nested: the path stack implied by the history must be the one the part carries) and congestion.',
   technique='TLA+ closed spec Floor.tla model-checked with TLC over configuration families (all tie-breaks) + TLC trace validation of real runs against the property observers FloorObs.tla (sampled TLC behaviours replayed on the code with forced dispatch order)'),
 'C11': dict(engine='floor', ref='DESIGN.md 3.2, 6', note=FLOOR_NOTE,
   text='Observer C11 (holds exactly while processing, pool usage = requirements of the holders, atomic acquisition on accept, released on failure, kept through maintenance, no idle operational holder when time advances) checked by TLC on the closed specification and on recorded runs with competing processors, capacity scripts, failures and maintenance.',
   technique='TLA+ closed spec Floor.tla model-checked with TLC over configuration families (all tie-breaks) + TLC trace validation of real runs against the property observers FloorObs.tla (sampled TLC behaviours replayed on the code with forced dispatch order)'),
 'C13': dict(engine='floor', ref='DESIGN.md 3.2, 6', note=FLOOR_NOTE,
   text='Observer C13 (down machines accept and release nothing, a failure discards exactly the part in process and reports it once, callbacks once per occurrence in registration order, repeated calls are no-ops, uptime and utilisation equal accumulated operational / processing time, a work order keeps its target down for exactly its duration, a finished part leaves after restoration) checked by TLC on the closed specification and on recorded runs.',
   technique='TLA+ closed spec Floor.tla model-checked with TLC over configuration families (all tie-breaks) + TLC trace validation of real runs against the property observers FloorObs.tla (sampled TLC behaviours replayed on the code with forced dispatch order)'),
 'C15': dict(engine='floor', ref='DESIGN.md 3.2, 6', note=FLOOR_NOTE,
   text='Observer C15 (last level / resource record equals the live value, exactly one received / produced / supplied / failure record per occurrence observed through public callbacks with time, part, quality and value, counters equal record counts) checked by TLC on every recorded step; the resource-record clauses are also checked on the pool traces (PoolsTrace.tla), the work-order records on the maintainer traces (MaintTrace.tla), the schedule records on the scheduler traces (SchedTrace.tla), and the exported event-trace file against the observed dispatch sequence.',
   technique='TLA+ closed spec Floor.tla model-checked with TLC over configuration families (all tie-breaks) + TLC trace validation of real runs against the property observers FloorObs.tla (sampled TLC behaviours replayed on the code with forced dispatch order)'),
 'C16': dict(engine='floor', ref='DESIGN.md 3.2, 6', note=FLOOR_NOTE,
   text='Observer C16 (value = start + history, each entry with time, non-zero change and running total; source value = minus supplied value; sink value = received value; batch = sum of parts, recursively for batches of batches made by a user-written generator; net value = sum over assets) checked by TLC on every recorded step of the scenario families.',
   technique='TLA+ closed spec Floor.tla model-checked with TLC over configuration families (all tie-breaks) + TLC trace validation of real runs against the property observers FloorObs.tla (sampled TLC behaviours replayed on the code with forced dispatch order)'),
 'C17': dict(engine='floor', ref='DESIGN.md 3.2, 6', note=FLOOR_NOTE,
   text='Observer C17 keeps the sequence of leaf parts entering and leaving each batcher and checks sequence preservation, exact batch sizes, acceptance only when empty, the batcher in the history of every part it unpacked, and member counting in buffers and sinks; checked by TLC on the closed specification and on recorded runs with single parts and batches of sizes 0..3 through one or two batchers, buffers and processors.',
   technique='TLA+ closed spec Floor.tla model-checked with TLC over configuration families (all tie-breaks) + TLC trace validation of real runs against the property observers FloorObs.tla (sampled TLC behaviours replayed on the code with forced dispatch order)'),
 'C14': dict(engine='equiv', ref='DESIGN.md 6 (C14)',
   text='Design level: TLC model-checks SplitMC (two copies of the kernel specification with a fixed tie-break choice function: '
        'run(a);run(b) and run(a+b) execute the same actions at the same times and leave the same events). Code level: for every '
        'configuration of the tie-dependent floor families a same-seed pair (second run after advancing the global asset-id counter) '
        'and a split-run pair (tie-break choices held fixed, split at one or two grid points) are recorded step by step with the '
        'complete projected state and TLC (Equiv.tla) checks that paired steps are equal; simulate_multiple_times is run with 0, 1, 2, 4 '
        'and default process counts and every returned system is compared with the in-process run of its index.',
   technique='TLA+ two-copy kernel spec model-checked with TLC + TLC comparison of paired recorded runs of the real package'),
}

ENGINES = {
 'equiv': dict(name='equiv', path='harness/p_equiv.py', kind_free_text='SplitMC.tla (design) / Equiv.tla (paired traces); harness/p_equiv.py equiv_models.py'),
 'floor': dict(name='floor', path='harness/p_floor.py', kind_free_text='Floor.tla (closed spec) / FloorMC.tla + generated FloorCfgs / FloorObs.tla (property observers) / FloorTrace.tla; harness/floor_cfg.py floor_build.py floor_tracer.py floor_mc.py'),
 'lifecycle': dict(name='lifecycle', path='harness/p_lifecycle.py', kind_free_text='Lifecycle.tla / LifecycleMC.tla / LifecycleTrace.tla; harness/component.py; driver harness/lifecycle_driver.py'),
 'sched': dict(name='sched', path='harness/p_sched.py', kind_free_text='Sched.tla / SchedMC.tla / SchedTrace.tla; harness/component.py; driver harness/sched_driver.py'),
 'sensors': dict(name='sensors', path='harness/p_sensors.py', kind_free_text='Sensors.tla / SensorsMC.tla / SensorsTrace.tla; harness/component.py; driver harness/sensors_driver.py'),
 'maint': dict(name='maint', path='harness/p_maint.py', kind_free_text='Maint.tla / MaintMC.tla / MaintTrace.tla; generic component pipeline harness/component.py; driver harness/maint_driver.py'),
 'pools': dict(name='pools', path='harness/p_pools.py', kind_free_text='Pools.tla / PoolsMC.tla (closed, exhaustive + simulate) / PoolsTrace.tla (trace validation); driver harness/pools_driver.py'),
 'kernel': dict(name='kernel', path='harness/p_kernel.py', kind_free_text='Kernel.tla / KernelMC.tla (closed, exhaustive + simulate) / KernelTrace.tla (trace validation); driver harness/kernel_driver.py'),
}

def main():
    here = os.path.dirname(os.path.dirname(os.path.abspath(__file__)))
    props = [json.loads(l) for l in open(os.path.join(here, 'properties.jsonl'))]
    checks = []
    na = []
    for p in props:
        i = p['id']
        c = CLAIMS.get(i)
        if not c:
            na.append({'property_id': i, 'reason': 'check under construction in this round (DESIGN.md section 6); claimed once its TLA+ specification and conformance harness are committed'})
            continue
        checks.append({
            'property_id': i,
            'quick_cmd': './check run %s --tier quick' % i,
            'thorough_cmd': './check run %s --tier thorough' % i,
            'evidence_file': 'evidence/%s.json' % i,
            'replay_cmd_template': './check replay {path}',
            'engine': c['engine'],
            'level_claimed': {'category': 'model_checking', 'text': c['text'], 'design_ref': c['ref']},
            'level_note': c.get('note', NOTE_COMMON),
            'technique': c['technique'],
        })
    used = sorted({c['engine'] for c in checks})
    m = {
        'version': 1,
        'setup_cmd': './check setup',
        'hooks': {'guard': 'SIMPROCESD_VERIF',
                  'enable': 'n/a - no source hooks; the harness wraps public entry points at run time and imports /repo from the working tree',
                  'baseline_off_cmd': 'cd /repo && /venv/bin/python -m pytest -q -p no:cacheprovider --timeout=900 simprocesd/tests/model',
                  'source_commits': [], 'add_only': True},
        'engines': [dict(ENGINES[e], serves_properties=[c['property_id'] for c in checks if c['engine'] == e]) for e in used],
        'checks': checks,
        'not_applicable': na,
        'notes': 'All checks are TLA+/TLC based; see DESIGN.md. Known genuine defects are listed in known_findings.json.',
    }
    if not na:
        del m['not_applicable']
    json.dump(m, open(os.path.join(here, 'MANIFEST.json'), 'w'), indent=1)
    try:
        import jsonschema
        jsonschema.validate(m, json.load(open('/root/.vp/MANIFEST.schema.json')))
        print('MANIFEST valid; %d checks, %d not_applicable' % (len(checks), len(na)))
    except ImportError:
        print('MANIFEST written (jsonschema not available to validate)')

main()
