#!/venv/bin/python
"""Confirm a seeded change and run checks against it.

usage: tools/seed_eval.py <dir with patch.diff, demo.py[, notes.md]> --id <seed id> --prop Cxx
                          [--checks C01,C07] [--needs "text"] [--tier quick] [--no-confirm]

1. confirmation in a scratch worktree under /tmp (removed afterwards): the unedited test suite
   passes with the patch; demo.py fails with the patch and passes without it;
2. the patch is applied to /repo, the listed checks are run, and /repo is restored
   (git checkout -- .) in a finally block;
3. with --id the change is kept as /verif/seeded/<id>/ (patch.diff, demo.py, notes.md, meta.json).
"""
import argparse
import json
import os
import shutil
import subprocess
import sys
import time

VERIF = os.path.dirname(os.path.dirname(os.path.abspath(__file__)))
TESTS = ['/venv/bin/python', '-m', 'pytest', '-q', '-p', 'no:cacheprovider', '--timeout=900', 'simprocesd/tests/model']


def sh(cmd, **kw):
    return subprocess.run(cmd, capture_output=True, text=True, **kw)


def confirm(src):
    wt = '/tmp/seedchk.%d' % os.getpid()
    res = {}
    try:
        r = sh(['git', '-C', '/repo', 'worktree', 'add', '--detach', wt, 'HEAD'])
        if r.returncode:
            raise RuntimeError(r.stderr)
        env = dict(os.environ, PYTHONPATH=wt, PYTHONHASHSEED='0')
        r = sh(['/venv/bin/python', os.path.join(src, 'demo.py')], env=env, cwd=wt, timeout=600)
        res['demo_without'] = r.returncode
        r = sh(['git', '-C', wt, 'apply', os.path.join(src, 'patch.diff')])
        if r.returncode:
            raise RuntimeError('patch does not apply: ' + r.stderr)
        r = sh(TESTS, env=env, cwd=wt, timeout=1200)
        tail = (r.stdout.strip().splitlines() or [''])[-1]
        res['tests_with'] = tail
        res['tests_pass'] = r.returncode == 0 and '150 passed' in tail
        r = sh(['/venv/bin/python', os.path.join(src, 'demo.py')], env=env, cwd=wt, timeout=600)
        res['demo_with'] = r.returncode
        res['demo_msg'] = (r.stderr.strip().splitlines() or r.stdout.strip().splitlines() or [''])[-1][:300]
    finally:
        sh(['git', '-C', '/repo', 'worktree', 'remove', '--force', wt])
        shutil.rmtree(wt, True)
    res['confirmed'] = bool(res.get('tests_pass') and res.get('demo_with') not in (0, None)
                            and res.get('demo_without') == 0)
    return res


def run_checks_scratch(src, checks, tier):
    """Triage only (does not touch /repo, so it can run next to a background run that uses /repo): the
    patch is applied in a scratch worktree and the checks are pointed at it with VERIF_REPO."""
    out = {}
    wt = '/tmp/seedrun.%d' % os.getpid()
    try:
        r = sh(['git', '-C', '/repo', 'worktree', 'add', '--detach', wt, 'HEAD'])
        if r.returncode:
            raise RuntimeError(r.stderr)
        r = sh(['git', '-C', wt, 'apply', os.path.join(src, 'patch.diff')])
        if r.returncode:
            raise RuntimeError('patch does not apply: ' + r.stderr)
        env = dict(os.environ, VERIF_REPO=wt)
        for c in checks:
            t0 = time.time()
            r = sh([os.path.join(VERIF, 'check'), 'run', c, '--tier', tier], cwd=VERIF, env=env)
            keep = [l for l in r.stdout.splitlines() if l.startswith(('VIOLATION', 'KNOWN', '  clause', 'MACHINERY'))]
            out[c] = {'rc': r.returncode, 'lines': keep[:8], 'wall': round(time.time() - t0, 1)}
            if r.returncode == 2:
                out[c]['tail'] = r.stdout.strip().splitlines()[-15:]
    finally:
        sh(['git', '-C', '/repo', 'worktree', 'remove', '--force', wt])
        shutil.rmtree(wt, True)
    return out


def run_checks(src, checks, tier):
    out = {}
    st = sh(['git', '-C', '/repo', 'status', '--porcelain']).stdout.strip()
    if st:
        raise RuntimeError('/repo is not clean: ' + st)
    try:
        r = sh(['git', '-C', '/repo', 'apply', os.path.join(src, 'patch.diff')])
        if r.returncode:
            raise RuntimeError('patch does not apply to /repo: ' + r.stderr)
        for c in checks:
            t0 = time.time()
            r = sh([os.path.join(VERIF, 'check'), 'run', c, '--tier', tier], cwd=VERIF)
            keep = [l for l in r.stdout.splitlines() if l.startswith(('VIOLATION', 'KNOWN', '  clause', 'MACHINERY'))]
            out[c] = {'rc': r.returncode, 'lines': keep[:8], 'wall': round(time.time() - t0, 1)}
            if r.returncode == 2:
                out[c]['tail'] = r.stdout.strip().splitlines()[-15:]
    finally:
        sh(['git', '-C', '/repo', 'checkout', '--', '.'])
    return out


def main():
    ap = argparse.ArgumentParser()
    ap.add_argument('src')
    ap.add_argument('--id')
    ap.add_argument('--prop', required=True)
    ap.add_argument('--checks')
    ap.add_argument('--needs', default='')
    ap.add_argument('--tier', default='quick')
    ap.add_argument('--no-confirm', action='store_true')
    ap.add_argument('--confirm-only', action='store_true', help='only (re)do the confirmation and record it')
    ap.add_argument('--scratch', action='store_true', help='triage in a scratch worktree instead of /repo')
    a = ap.parse_args()
    src = os.path.abspath(a.src)
    checks = (a.checks or a.prop).split(',')
    conf = {'confirmed': None} if a.no_confirm else confirm(src)
    print('confirm:', json.dumps(conf))
    if conf['confirmed'] is False:
        print('NOT CONFIRMED - not kept')
        return 1
    res = {} if a.confirm_only else (run_checks_scratch if a.scratch else run_checks)(src, checks, a.tier)
    for c, r in res.items():
        print(c, 'rc=%d' % r['rc'], '%.0fs' % r['wall'], '|', ' ; '.join(r['lines'][:4]))
        if r['rc'] == 2:
            print('\n'.join(r.get('tail', [])))
    if a.id:
        d = os.path.join(VERIF, 'seeded', a.id)
        os.makedirs(d, exist_ok=True)
        for f in ('patch.diff', 'demo.py', 'notes.md'):
            if os.path.exists(os.path.join(src, f)) and os.path.abspath(src) != os.path.abspath(d):
                shutil.copy(os.path.join(src, f), os.path.join(d, f))
        meta = {'id': a.id, 'breaks_property': a.prop, 'needs_to_manifest': a.needs,
                'confirmation': conf,
                'confirmation_commands': ['git -C /repo worktree add --detach <scratch> HEAD',
                                          'PYTHONPATH=<scratch> /venv/bin/python demo.py   (unchanged: exit 0)',
                                          'git -C <scratch> apply patch.diff',
                                          'cd <scratch> && PYTHONPATH=<scratch> ' + ' '.join(TESTS) + '   (150 passed)',
                                          'PYTHONPATH=<scratch> /venv/bin/python demo.py   (changed: exit != 0)',
                                          'git -C /repo worktree remove --force <scratch>'],
                'checks_run': {c: {'rc': r['rc'], 'detected': r['rc'] == 1, 'lines': r['lines'][:4], 'tier': a.tier,
                                   'tree': 'scratch worktree (VERIF_REPO)' if a.scratch else '/repo'}
                               for c, r in res.items()}}
        old = os.path.join(d, 'meta.json')
        if os.path.exists(old):
            try:
                prev = json.load(open(old))
                pr = prev.get('checks_run', {})
                pr.update(meta['checks_run'])
                meta['checks_run'] = pr
                if not a.needs:
                    meta['needs_to_manifest'] = prev.get('needs_to_manifest', '')
                if a.no_confirm:
                    meta['confirmation'] = prev.get('confirmation', conf)
            except Exception:
                pass
        json.dump(meta, open(old, 'w'), indent=1)
        print('kept as', d)
    return 0


if __name__ == '__main__':
    sys.exit(main())
