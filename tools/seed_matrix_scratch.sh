#!/bin/sh
# Re-runs every kept seed against the checks that detected it (plus the check of its own property) in scratch
# worktrees (VERIF_REPO), N at a time; does not touch /repo or the seeds' meta.json.  usage: seed_matrix_scratch.sh [N] [pattern]
cd /verif
N=${1:-3}
PAT=${2:-.}
ls -d seeded/*/ | grep -E "$PAT" | xargs -P $N -I{} sh -c '
  d={}; id=$(basename $d)
  prop=$(/venv/bin/python -c "import json;print(json.load(open(\"$d/meta.json\"))[\"breaks_property\"])")
  checks=$(/venv/bin/python -c "
import json
m=json.load(open(\"$d/meta.json\"))
det=[c for c,r in m[\"checks_run\"].items() if r.get(\"detected\")]
print(\",\".join(sorted(set(det[:2]+[\"$prop\"]))))")
  out=$(/venv/bin/python tools/seed_eval.py $d --prop $prop --checks $checks --scratch --no-confirm 2>&1 | grep "rc=" | sed "s/ | .*clause=/ clause=/; s/ key=.*//" | tr "\n" ";")
  echo "$id: $out"'
