#!/bin/sh
# re-runs every kept seed against the check of its property (never run anything else concurrently: it patches /repo)
cd /verif
for d in seeded/*/; do
  id=$(basename $d)
  prop=$(python3 -c "import json;print(json.load(open('$d/meta.json'))['breaks_property'])")
  case $prop in
    C02|C03|C04|C05|C06|C08|C11|C13|C15|C16|C17) checks="$prop";;
    *) checks="$prop";;
  esac
  extra=$(python3 -c "
import json
m=json.load(open('$d/meta.json'))
det=[c for c,r in m['checks_run'].items() if r.get('detected')]
print(','.join(sorted(set(det+['$prop']))))")
  out=$(tools/seed_eval.py $d --id $id --prop $prop --checks $extra --no-confirm 2>&1 | grep "rc=" | sed 's/ | .*clause=/ clause=/; s/ key=.*//' | tr '\n' ';')
  echo "$id: $out"
done
