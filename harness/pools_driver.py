"""Drives the real ResourceManager / ReservedResources (bound to a real Environment) along
operation sequences and records pool traces.

One trace line per public call and per dispatched event: the call (arguments, outcome), for
dispatched events the callbacks that ran (with the pool as each found and left it, and whether
its arguments were the manager and a copy of the registered request), and the complete projected
state after it.  Sequences come from TLC (behaviours of PoolsMC) and from a seeded random
generator.  Validation of the lines is done by TLC (PoolsTrace.tla).
"""
import random as _pyrandom

U = ('A', 'B', 'Z')


def _num(x):
    if x != int(x):
        raise ValueError('non-integer amount in pool trace: %r' % (x,))
    return int(x)


class Cb:
    """A waiting request's callback from the program alphabet of Pools.tla (RunCb)."""

    def __init__(self, tr, wid, prog, orig, value):
        self.tr = tr
        self.wid = wid
        self.prog = prog
        self.orig = orig          # the caller's dict (mutated after registration)
        self.value = value        # its value at registration
        self.__name__ = 'cb_%d' % prog

    def __call__(self, manager, request):
        tr = self.tr
        ent = {'wid': self.wid, 'pin': tr.proj_pool(), 'req': {k: _num(v) for k, v in request.items()},
               'argsOk': bool(manager is tr.rm and request == self.value and request is not self.orig)}
        tr.cur_calls.append(ent)
        tr.calls.append([self.wid, _num(tr.env.now)])
        p = self.prog
        if p == 1:
            tr.do_reserve(dict(request))
        elif p == 2:
            tr.do_reserve({'A': 1})
        elif p == 3:
            tr.do_register({'A': 1}, 0)
        elif p == 4:
            if tr.res:
                tr.res[0].release()
        elif p == 5:
            tr.do_reserve(dict(request))
            tr.do_register({'B': 1}, 1)
        ent['pout'] = tr.proj_pool()


class PTracer:
    def __init__(self, tid):
        import simprocesd.model.simulation as sim
        from simprocesd.model.resource_manager import ResourceManager
        self.sim = sim
        self.tid = tid
        self.rm = ResourceManager()
        self.env = sim.Environment(resource_manager=self.rm)
        self.res = []
        self.calls = []
        self.cur_calls = []
        self.new_wids = []
        self.nwid = 0
        self.inited = False
        self.skipped = 0
        self.lines = []
        self.k = 0
        self._wrap_step()
        self.log({'op': 'start'})

    # -- projection ------------------------------------------------------------------------
    def proj_pool(self):
        rs = self.rm._resources
        out = {}
        for r in U:
            if r in rs:
                out[r] = {'k': True, 'used': _num(rs[r][0]), 'cap': _num(rs[r][1])}
            else:
                out[r] = {'k': False, 'used': 0, 'cap': 0}
        extra = set(rs) - set(U)
        if extra:
            raise ValueError('unexpected resource names %r' % (extra,))
        return out

    def project(self):
        env, rm = self.env, self.rm
        hold = []
        for r in self.res:
            d = r.reserved_resources
            for k, v in d.items():
                if k not in U:
                    raise ValueError('unexpected resource name %r' % (k,))
            hold.append({u: _num(d.get(u, 0)) for u in U})
        waitq = []
        for req, cb in rm._waiting_requests:
            waitq.append({'wid': cb.wid if isinstance(cb, Cb) else 0,
                          'req': {k: _num(v) for k, v in req.items()},
                          'cb': cb.prog if isinstance(cb, Cb) else -1})
        pend = sum(1 for e in env._events if e.time == env.now and e.asset_id == -1
                   and getattr(e.action, '__name__', '') == '_check_pending_requests')
        rec = {}
        ru = env.simulation_data.get('resource_update', {})
        for u in U:
            lst = ru.get(u, [])
            if lst:
                rec[u] = {'n': len(lst), 'used': _num(lst[-1][1]), 'cap': _num(lst[-1][2])}
            else:
                rec[u] = {'n': 0, 'used': 0, 'cap': 0}
        return {'now': _num(env.now), 'inited': self.inited, 'pool': self.proj_pool(), 'hold': hold,
                'waitq': waitq, 'pend': pend, 'calls': [list(c) for c in self.calls],
                'nextWid': self.nwid + 1, 'rec': rec}

    def log(self, ev):
        self.lines.append({'tid': self.tid, 'k': self.k, 'ev': ev, 'st': self.project()})
        self.k += 1

    # -- operations (also used by callbacks) -------------------------------------------------
    def do_reserve(self, req):
        try:
            r = self.rm.reserve_resources(req)
        except Exception as ex:       # noqa: an error is an outcome
            return 'error', type(ex).__name__
        if r is None:
            return 'none', None
        self.res.append(r)
        return 'ok', None

    def do_register(self, req, prog):
        self.nwid += 1
        self.new_wids.append(self.nwid)
        orig = dict(req)
        cb = Cb(self, self.nwid, prog, orig, dict(req))
        self.rm.reserve_resources_with_callback(orig, cb)
        # the manager must have stored a copy: later changes by the caller do not matter
        for k in list(orig):
            orig[k] = orig[k] + 7
        orig['A'] = orig.get('A', 0) + 7

    def _wrap_step(self):
        env = self.env
        orig = env.step

        def step():
            self.cur_calls = []
            self.new_wids = []
            try:
                orig()
            finally:
                self.log({'op': 'step', 'calls': self.cur_calls, 'newwids': list(self.new_wids)})
        env.step = step

    def apply(self, op):
        o = op['op']
        rm = self.rm
        if o == 'add':
            out, exc = 'ok', None
            try:
                rm.add_resources(op['r'], op['n'])
            except Exception as ex:
                out, exc = 'error', type(ex).__name__
            self.log({'op': 'add', 'r': op['r'], 'n': op['n'], 'out': out, 'exc': exc or ''})
        elif o == 'init':
            rm.initialize(self.env)
            self.inited = True
            self.log({'op': 'init', 'out': 'ok'})
        elif o == 'reserve':
            out, exc = self.do_reserve(dict(op['req']))
            self.log({'op': 'reserve', 'req': op['req'], 'out': out, 'exc': exc or ''})
        elif o == 'release':
            out, exc = 'ok', None
            if op['rid'] > len(self.res):      # the implementation diverged from the specification earlier
                self.skipped += 1
                return
            r = self.res[op['rid'] - 1]
            try:
                if op['all']:
                    r.release()
                else:
                    r.release(dict(op['what']))
            except Exception as ex:
                out, exc = 'error', type(ex).__name__
            what = op['what'] if not op['all'] else {u: 0 for u in U}
            self.log({'op': 'release', 'rid': op['rid'], 'all': bool(op['all']), 'what': what, 'out': out,
                      'exc': exc or ''})
        elif o == 'merge':
            out, exc = 'ok', None
            if max(op['i'], op['j']) > len(self.res):
                self.skipped += 1
                return
            try:
                self.res[op['i'] - 1].merge(self.res[op['j'] - 1])
            except Exception as ex:
                out, exc = 'error', type(ex).__name__
            self.log({'op': 'merge', 'i': op['i'], 'j': op['j'], 'out': out, 'exc': exc or ''})
        elif o == 'register':
            self.do_register(dict(op['req']), op['cb'])
            self.log({'op': 'register', 'req': op['req'], 'cb': op['cb'], 'out': 'ok'})
        elif o == 'run':
            self.env.run(op['d'])
        else:
            raise ValueError(o)


def run_sequence(tid, ops):
    """Execute one operation sequence on a fresh manager; returns (lines, divergences, error)."""
    tr = PTracer(tid)
    err = None
    div = 0
    try:
        for op in ops:
            n0 = len(tr.lines)
            tr.apply(op)
            exp = op.get('out')
            if exp is not None and op['op'] != 'run' and len(tr.lines) > n0:
                got = tr.lines[n0]['ev'].get('out')
                if got != exp:
                    div = 1
    except Exception as ex:   # an exception escaping here is a harness-visible crash of the manager
        err = '%s: %s' % (type(ex).__name__, ex)
    return tr.lines, (1 if div or tr.skipped else 0), err


REQ_POOL = None


def _reqs():
    global REQ_POOL
    if REQ_POOL is None:
        amts = (-1, 0, 1, 2)
        single = [{r: n} for r in U for n in amts]
        double = [{'A': a, 'B': b} for a in amts for b in amts]
        mixed = [{'A': 1, 'Z': 0}, {'A': 1, 'Z': 1}, {'Z': 0, 'A': 1}, {'B': 2, 'A': 1}, {'B': -1, 'A': 1}, {}, {}]
        REQ_POOL = single + double + mixed
    return REQ_POOL


def random_ops(rng, n):
    """A random operation sequence (longer than the exhaustive bound, wider amounts)."""
    ops = []
    for _ in range(rng.choice([0, 1, 2])):
        ops.append({'op': 'add', 'r': rng.choice('AB'), 'n': rng.choice([-1, 1, 2, 3])})
    ops.append({'op': 'init'})
    nres = 0
    reqs = _reqs()
    for _ in range(n):
        x = rng.random()
        if x < 0.17:
            ops.append({'op': 'add', 'r': rng.choice('AB'), 'n': rng.choice([-3, -2, -1, 0, 1, 2, 3])})
        elif x < 0.42:
            ops.append({'op': 'reserve', 'req': dict(rng.choice(reqs))})
            nres += 1      # upper bound; apply() only appends on success, fixed up below
        elif x < 0.62:
            ops.append({'op': 'release', 'rid': rng.randint(1, 6), 'all': rng.random() < 0.5,
                        'what': dict(rng.choice(reqs))})
        elif x < 0.70:
            ops.append({'op': 'merge', 'i': rng.randint(1, 6), 'j': rng.randint(1, 6)})
        elif x < 0.85:
            q = dict(rng.choice([r for r in reqs if all(v >= 0 for v in r.values()) and any(v > 0 for v in r.values())]))
            ops.append({'op': 'register', 'req': q, 'cb': rng.choice([0, 1, 1, 2, 3, 4, 5])})
        else:
            ops.append({'op': 'run', 'd': rng.choice([0, 0, 1, 2])})
    ops.append({'op': 'run', 'd': 1})
    return ops


def run_random(tid, seed, n):
    """Random sequence; release / merge indices are resolved against the reservations that exist."""
    rng = _pyrandom.Random(seed)
    ops = random_ops(rng, n)
    tr = PTracer(tid)
    err = None
    done = []
    try:
        for op in ops:
            if op['op'] == 'release':
                if not tr.res:
                    continue
                op = dict(op, rid=(op['rid'] - 1) % len(tr.res) + 1)
            elif op['op'] == 'merge':
                if len(tr.res) < 2:
                    continue
                i = (op['i'] - 1) % len(tr.res) + 1
                j = (op['j'] - 1) % len(tr.res) + 1
                if i == j:
                    j = j % len(tr.res) + 1
                op = dict(op, i=i, j=j)
            done.append(op)
            tr.apply(op)
    except Exception as ex:
        err = '%s: %s' % (type(ex).__name__, ex)
    return tr.lines, err, done
