"""./check selftest: shows that the binding bites.  An accepted recorded trace of the real package is
corrupted in one field (or one recorded step is removed) and TLC must reject it under a clause of the
right property; the unmodified trace must be accepted.  Exit 0 when every expectation holds, else 2."""
import copy

from . import common as C
from . import pipeline as P


def _floor_trace():
    from . import floor_cfg as F
    from . import floor_tracer as T
    cfg = F.norm(dict(devs=[F.src(2, 5, pval=1), F.dev('processor', [1], cyc=3, vadd=1),
                            F.dev('buffer', [2], cap=2, delay=1), F.dev('sink', [3], cyc=2)],
                      script=[dict(t=5, call='shutdown', dev=2), dict(t=8, call='restore', dev=2)], horizon=32))
    cfg['cid'] = 1
    cfg['family'] = 'selftest'
    lines, err = T.run_cfg(1, cfg, 3)
    if err:
        raise C.MachineryError('selftest trace failed: ' + err)
    return lines


def _cbm_trace():
    from . import floor_cfg as F
    from . import floor_tracer as T
    cfg = F.norm(dict(devs=[F.src(2, 9, pval=1),
                            F.dev('processor', [1], cyc=1, wear=1, sint=1, pint=3, scap=2, thr=3, wodur=3, wocap=1, wocost=1),
                            F.dev('sink', [2], cyc=0)], horizon=32, maintcap=1))
    cfg['cid'] = 1
    cfg['family'] = 'selftest'
    lines, err = T.run_cfg(1, cfg, 5)
    if err:
        raise C.MachineryError('selftest trace failed: ' + err)
    return lines


def _validate(stage, module, lines):
    fails, n, _ = P.validate_traces(stage, module, module + '.cfg', [lines], shards=1)
    return sorted({f[2] for f in fails})


def main():
    stage = C.stage_specs(C.scratch('selftest'))
    ok = True
    base = _floor_trace()
    rows = []

    def expect(name, lines, wanted, module='FloorTrace'):
        nonlocal ok
        got = _validate(stage, module, lines)
        hit = [c for c in got if any(c.startswith(w) for w in wanted)] if wanted else []
        good = (not [c for c in got if not c.startswith('D.')]) if not wanted else bool(hit)
        ok = ok and good
        rows.append((name, 'ok' if good else 'UNEXPECTED', ', '.join(got[:6]) or 'accepted'))

    expect('unmodified floor trace', base, [])
    # 1. a buffer level that does not match the content
    t = copy.deepcopy(base)
    k = next(i for i, ln in enumerate(t) if ln['st']['dev'][2].get('buf'))
    t[k]['st']['dev'][2]['level'] += 1
    expect('buffer level + 1 at line %d' % k, t, ['C05.LevelIsContent'])
    # 2. a received_part record that was not written
    t = copy.deepcopy(base)
    k = next(i for i, ln in enumerate(t) if any(r[0] == 'received_part' for r in ln['ev'].get('recs', [])))
    t[k]['ev']['recs'] = [r for r in t[k]['ev']['recs'] if r[0] != 'received_part']
    expect('received_part record dropped at line %d' % k, t, ['C15.OneReceivedRecordPerReceipt'])
    # 3. a routing history that does not end at the holder
    t = copy.deepcopy(base)
    k = next(i for i, ln in enumerate(t) if ln['st']['dev'][1].get('inp'))
    pid = t[k]['st']['dev'][1]['inp']
    t[k]['st']['part'][pid - 1]['hist'] = t[k]['st']['part'][pid - 1]['hist'][:-1]
    expect('routing history shortened at line %d' % k, t, ['C08.HistoryEndsAtHolder'])
    # 4. uptime that does not equal the operational time
    t = copy.deepcopy(base)
    k = len(t) // 2
    t[k]['st']['dev'][1]['up'] += 1
    expect('uptime + 1 at line %d' % k, t, ['C13.UptimeIsOperationalTime'])
    # 5. a part in two places
    t = copy.deepcopy(base)
    k = next(i for i, ln in enumerate(t) if ln['st']['dev'][1].get('inp'))
    t[k]['st']['dev'][0]['out'] = t[k]['st']['dev'][1]['inp']
    expect('part duplicated at line %d' % k, t, ['C02.ExactlyOnePlace'])
    # 6. a recorded step removed (as if the Environment.step wrapper had missed an event)
    t = copy.deepcopy(base)
    k = next(i for i, ln in enumerate(t) if ln['ev'].get('kind') == 'pass' and ln['ev'].get('occ'))
    del t[k]
    for i, ln in enumerate(t):
        ln['k'] = i
    expect('step line %d removed' % k, t, ['C', 'D.StepFn'])
    # condition-based maintenance: sensors, the monitoring system and the maintainer on a floor trace
    cb = _cbm_trace()
    expect('unmodified cbm floor trace', cb, [])
    t = copy.deepcopy(cb)
    k = next(i for i, ln in enumerate(t) if any(o[0] == 'sense' and o[3] == 0 for o in ln['ev'].get('occ', [])))
    for o in t[k]['ev']['occ']:
        if o[0] in ('sense', 'cms'):
            o[4] += 1
    expect('sensed value + 1 at line %d' % k, t, ['C19.FloorOutputSensorCadence'])
    t = copy.deepcopy(cb)
    t[k]['ev']['occ'] = [o for o in t[k]['ev']['occ'] if o[0] != 'cms']
    expect('monitoring system not called at line %d' % k, t, ['C19.FloorMonitorReceivesEachOnceInOrder'])
    t = copy.deepcopy(cb)
    k = next(i for i, ln in enumerate(t) if ln['st']['mt']['active'])
    t[k]['st']['mt']['util'] += 1
    expect('maintainer utilisation + 1 at line %d' % k, t, ['C12.FloorCapacityNeverExceeded'])
    t = copy.deepcopy(cb)
    k = next(i for i, ln in enumerate(t) if ln['ev'].get('kind') == 'psense')
    t[k]['st']['dev'][1]['ptime'][-1] += 1
    expect('periodic measurement time + 1 at line %d' % k, t, ['C19.FloorSeriesBoundedAndAligned'])
    # kernel: the clock of one recorded step
    from . import kernel_driver as KD
    from .kernel_params import bodies_module
    stage_k = C.stage_specs(C.scratch('selftest_k'), {'KernelBodies.tla': bodies_module()})
    ops = [{'op': 'run', 'd': 3}, {'op': 'sched', 'dt': 1, 'prio': 70, 'asset': 1, 'body': 0},
           {'op': 'sched', 'dt': 1, 'prio': 50, 'asset': 2, 'body': 0}, {'op': 'pause', 'asset': 1}, {'op': 'run', 'd': 3},
           {'op': 'unpause', 'asset': 1}, {'op': 'run', 'd': 3}]
    kl, _, _ = KD.run_sequence(1, ops, forced=False, seed=1)
    got = _validate(stage_k, 'KernelTrace', kl)
    rows.append(('unmodified kernel trace', 'ok' if not got else 'UNEXPECTED', ', '.join(got) or 'accepted'))
    ok = ok and not got
    t = copy.deepcopy(kl)
    k = next(i for i, ln in enumerate(t) if ln['ev']['op'] == 'unpause')
    for e in t[k]['st']['queue']:
        if e['asset'] == 1:
            e['time'] += 1
    got = _validate(stage_k, 'KernelTrace', t)
    good = any(c.startswith('C07.UnpauseFn') for c in got)
    rows.append(('kernel: resumed event one tick late at line %d' % k, 'ok' if good else 'UNEXPECTED', ', '.join(got[:5])))
    ok = ok and good
    for r in rows:
        print('%-50s %-11s %s' % r)
    return 0 if ok else 2
