"""Drives the real simprocesd Environment along operation sequences and records kernel traces.

One trace line per public call and per dispatched event: the call (arguments, outcome) and the
complete projected kernel state after it.  The sequences come from TLC (behaviours of KernelMC,
replayed with the tie-break weights forced to the behaviour's dispatch order) and from a seeded
random generator (longer sequences).  Validation of the lines is done by TLC (KernelTrace.tla).
"""
import random as _pyrandom

from .kernel_params import BODIES

_state = {'cur': None, 'installed': False}


class _Shim:
    """Replaces the `random` module inside simprocesd.model.simulation: controls tie-breaks."""

    def random(self):
        return _state['cur'].next_weight()

    def __getattr__(self, name):
        return getattr(_pyrandom, name)


def install():
    if _state['installed']:
        return
    import simprocesd.model.simulation as sim
    orig_init = sim.Event.__init__

    def init(self, *a, **kw):
        orig_init(self, *a, **kw)
        cur = _state['cur']
        if cur is not None:
            cur.created(self)
    sim.Event.__init__ = init
    sim.random = _Shim()
    _state['installed'] = True


class Act:
    """An event action from the program alphabet; appends to the tracer's execution log."""

    def __init__(self, tr, body):
        self.tr = tr
        self.body = body
        self.vid = 0
        self.__name__ = 'body_%d' % body

    def __call__(self):
        tr = self.tr
        env = tr.env
        tr.ran.append([self.vid, tr.t(env.now)])
        if self.body == 0:
            return
        b = BODIES[self.body - 1]
        if b['code'] == 'sched':
            tr.do_sched(env.now + b['a'], b['b'], b['c'], b['child'])
        elif b['code'] == 'pause':
            env.pause_matching_events(b['a'])
        elif b['code'] == 'unpause':
            env.unpause_matching_events(b['a'])
        elif b['code'] == 'cancel':
            env.cancel_matching_events(b['a'])


class KTracer:
    def __init__(self, tid, weights=None, rng=None):
        import simprocesd.model.simulation as sim
        install()
        self.sim = sim
        self.tid = tid
        self.weights = weights
        self.rng = rng or _pyrandom.Random(0)
        self.nvid = 0
        self.ncalls = 0
        self.ran = []
        self.nrej = 0
        self.lines = []
        self.k = 0
        self.in_run = None
        self.run_first = False
        self.popped_seq = []
        _state['cur'] = self
        self.env = sim.Environment()
        self._wrap_step()
        self.log({'op': 'init'})

    # -- tie-break control ---------------------------------------------------------------
    def next_weight(self):
        self.ncalls += 1
        i = self.ncalls
        if self.weights is not None:
            return self.weights.get(i, 1000000 + i) / 4000000.0
        return self.rng.random()

    def created(self, ev):
        self.nvid += 1
        ev._vid = self.nvid
        if isinstance(ev.action, Act):
            ev.action.vid = self.nvid

    # -- projection ----------------------------------------------------------------------
    @staticmethod
    def t(x):
        if x != int(x):
            raise ValueError('non-integer time in kernel trace: %r' % (x,))
        return int(x)

    def proj_ev(self, e, paused):
        act = e.action
        body = act.body if isinstance(act, Act) else (-1 if e.asset_id == -1 else -2)
        return {'eid': getattr(e, '_vid', 0), 'time': self.t(e.time), 'prio': int(round(e.event_type * 10)),
                'asset': e.asset_id, 'body': body, 'cancelled': bool(e.cancelled),
                'pausedAt': self.t(e.paused_at) if paused else -1}

    def project(self):
        env = self.env
        return {'now': self.t(env.now),
                'queue': [self.proj_ev(e, False) for e in env._events],
                'paused': [self.proj_ev(e, True) for e in env._paused_events],
                'nextEid': self.nvid + 1, 'ran': [list(x) for x in self.ran], 'nrej': self.nrej,
                'term': bool(env._terminated)}

    def log(self, ev):
        self.lines.append({'tid': self.tid, 'k': self.k, 'ev': ev, 'st': self.project()})
        self.k += 1

    # -- operations ------------------------------------------------------------------------
    def do_sched(self, time, prio, asset, body):
        ok = True
        try:
            self.env.schedule_event(time, asset, Act(self, body), prio / 10.0, '')
        except ValueError:
            ok = False
            self.nrej += 1
        return ok

    def _wrap_step(self):
        env = self.env
        orig = env.step

        def step():
            if self.in_run is not None and self.run_first:
                self.run_first = False
                self.log({'op': 'run_begin', 'd': self.in_run[1]})
            pre = {getattr(e, '_vid', 0) for e in env._events}
            try:
                orig()
            finally:
                post = {getattr(e, '_vid', 0) for e in env._events} | \
                       {getattr(e, '_vid', 0) for e in env._paused_events}
                gone = sorted(pre - post)
                eid = gone[0] if len(gone) == 1 else 0
                self.popped_seq.append(eid)
                self.log({'op': 'step', 'eid': eid,
                          'runEnd': (self.in_run[0] + self.in_run[1]) if self.in_run else -1})
        env.step = step

    def apply(self, op):
        env = self.env
        o = op['op']
        if o == 'sched':
            time = env.now + op['dt']
            ok = self.do_sched(time, op['prio'], op['asset'], op['body'])
            self.log({'op': 'sched', 'time': self.t(time), 'prio': op['prio'], 'asset': op['asset'],
                      'body': op['body'], 'ok': ok})
        elif o == 'step':
            if env._events:
                env.step()
        elif o == 'run':
            t0 = self.t(env.now)
            self.in_run = (t0, op['d'])
            self.run_first = True
            try:
                env.run(op['d'])
            finally:
                if self.run_first:
                    self.run_first = False
                    self.log({'op': 'run_begin', 'd': op['d']})
                self.in_run = None
            self.log({'op': 'run_end', 't0': t0, 'd': op['d']})
        elif o == 'rstep':
            pass
        elif o == 'pause':
            env.pause_matching_events(op['asset'])
            self.log({'op': 'pause', 'asset': op['asset']})
        elif o == 'unpause':
            env.unpause_matching_events(op['asset'])
            self.log({'op': 'unpause', 'asset': op['asset']})
        elif o == 'cancel':
            env.cancel_matching_events(op['asset'])
            self.log({'op': 'cancel', 'asset': op['asset']})
        else:
            raise ValueError(o)


def weights_from_hist(hist):
    """Tie-break weights realising the dispatch order of a TLC behaviour: the i-th dispatched
    event (by creation index = eid) gets weight i."""
    w = {}
    pos = 0
    for op in hist:
        if op['op'] in ('step', 'rstep'):
            pos += 1
            w[op['eid']] = pos
    return w


def run_sequence(tid, ops, forced=True, seed=0):
    """Execute one operation sequence on a fresh Environment; returns (lines, divergences)."""
    weights = weights_from_hist(ops) if forced else None
    tr = KTracer(tid, weights=weights, rng=_pyrandom.Random(seed))
    err = None
    try:
        for op in ops:
            tr.apply(op)
    except Exception as ex:   # an exception escaping the kernel is itself an observation
        err = '%s: %s' % (type(ex).__name__, ex)
    expected = [op['eid'] for op in ops if op['op'] in ('step', 'rstep')] if forced else []
    div = 0
    if forced and err is None and tr.popped_seq[:len(expected)] != expected[:len(tr.popped_seq)]:
        div = 1
    _state['cur'] = None
    return tr.lines, div, err


PRIOS = [20, 49, 50, 55, 70, 80, 110]


def random_ops(rng, n, assets=(1, 2, 3, -1)):
    """A random operation sequence of length n (runs count as one operation).  Starts with a run
    so that pauses happen at non-zero times."""
    ops = []
    nb = len(BODIES)
    for i in range(n):
        r = rng.random()
        if r < 0.45:
            ops.append({'op': 'sched', 'dt': rng.choice([0, 0, 1, 2, 5]), 'prio': rng.choice(PRIOS),
                        'asset': rng.choice(assets), 'body': rng.choice([0, 0, 0] + list(range(1, nb + 1)))})
        elif r < 0.50:
            ops.append({'op': 'sched', 'dt': -rng.choice([1, 2]), 'prio': 70, 'asset': 1, 'body': 0})
        elif r < 0.62:
            ops.append({'op': 'step'})
        elif r < 0.74:
            ops.append({'op': 'run', 'd': rng.choice([0, 1, 3, 6])})
        elif r < 0.84:
            ops.append({'op': 'pause', 'asset': rng.choice(assets)})
        elif r < 0.94:
            ops.append({'op': 'unpause', 'asset': rng.choice(assets)})
        else:
            ops.append({'op': 'cancel', 'asset': rng.choice(assets)})
    return ops
