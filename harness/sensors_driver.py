"""Drives the real PeriodicSensor / OutputPartSensor / Cms on a real System (with a real line
source -> M1 -> M2 -> sink for the part sensor) and records traces for SensorsTrace.tla.

Grid traces use ticks of 0.25 time units; non-grid traces (interval 0.1, 0.7, ...) log times in
micro-units and carry, for each periodic measurement, whether its time equals the k-fold repeated
float addition of the interval exactly (TLA+ has no floats; the tracer computes that boolean)."""
import copy
import random as _pyrandom

TICK = 0.25
INF = 99
PC = 2       # M1's cycle time in ticks


class X:
    def __init__(self):
        self.x = 0
        self.lst = []


def _val(v):
    if isinstance(v, (list, tuple)):
        return [_val(i) for i in v]
    if isinstance(v, bool) or v is None:
        raise ValueError('unexpected probed value %r' % (v,))
    if v != int(v):
        raise ValueError('non-integer probed value %r' % (v,))
    return int(v)


class SnTracer:
    def __init__(self, tid, cfg, seed):
        from simprocesd.model import System
        from simprocesd.model.factory_floor import Source, PartProcessor, Sink
        from simprocesd.model.sensors import PeriodicSensor, OutputPartSensor, AttributeProbe, Probe
        from simprocesd.model.cms import Cms
        import simprocesd.model.simulation as sim
        _pyrandom.seed(seed)
        self.sim = sim
        tr = self
        self.tid = tid
        self.cfg = cfg
        self.grid = bool(cfg.get('grid', True))
        self.unit = TICK if self.grid else 1e-6
        self.iv_float = cfg['iv'] * TICK if self.grid else cfg['ivf']
        self.system = System()
        self.env = self.system.env
        self.x = X()
        from simprocesd.model.factory_floor import PartGenerator, Batch, Part
        # variations derived from the configuration: both sensors under one name (asset names need not be unique);
        # the observed processor working on batches of 2 or 3 parts (a batch is one finished item)
        samename = bool(cfg.get('samename', (cfg['iv'] + cfg['n']) % 2 == 0))
        bsize = cfg.get('bsize', [0, 2, 3][(cfg['iv'] + cfg['qcap']) % 3])

        class Gen(PartGenerator):
            def generate_part_helper(self, part_name, part_counter):
                if not bsize:
                    return Part(part_name)
                return Batch(part_name, [Part('%s_%d' % (part_name, i)) for i in range(bsize)])
        src = Source('src', Gen('p'), cycle_time=0)
        self.m1 = PartProcessor('M1', upstream=[src], cycle_time=PC * TICK)
        self.m2 = PartProcessor('M2', upstream=[self.m1], cycle_time=0)
        Sink('sink', upstream=[self.m2])
        self.nparts = 0
        self.fin = None
        self.nfin = 0

        def on_receive(m, part):
            tr.nparts += 1
            part.quality = tr.nparts
            part.marks = [1]
        self.m1.add_receive_part_callback(on_receive)

        def on_finish(m, part):
            tr.fin = [_val(part.quality), _val(part.marks)]
        self.m1.add_finish_processing_callback(on_finish)
        self.m2.add_finish_processing_callback(lambda m, part: part.marks.append(2))

        def cap(c):
            return float('inf') if c == INF else c
        self.P = PeriodicSensor(self.iv_float,
                                [AttributeProbe('x', self.x), AttributeProbe('lst', self.x),
                                 Probe(lambda t: t.x * 2, self.x)],
                                name='S' if samename else 'P', data_capacity=cap(cfg['pcap']))
        self.Q = OutputPartSensor(self.m1, [AttributeProbe('quality', None), AttributeProbe('marks', None)],
                                  sensing_interval=cfg['n'], name='S' if samename else 'Q', data_capacity=cap(cfg['qcap']))

        class MyCms(Cms):
            def on_sense(self, sensor, time, data):
                tr.note_call(sensor, 9, sensor, time, data)
        self.cms = MyCms(None, name='cms')
        self.cms_added = []
        self.cbs = {'P': [], 'Q': []}
        self.count = {'P': 0, 'Q': 0}
        self.kept = []
        self.tcount = 0          # periodic measurements begun (entries ever appended to the time series)
        self.pcalls, self.qcalls = [], []
        self.psense_times = 0.0
        self.first = False
        self.lines = []
        self.k = 0
        for name, s in (('P', self.P), ('Q', self.Q)):
            self._wrap_sense(name, s)
        self._wrap_step()
        self.log({'op': 'cfg', 'iv': cfg['iv'], 'pcap': cfg['pcap'], 'n': cfg['n'], 'qcap': cfg['qcap']})

    def _wrap_sense(self, name, s):
        orig = s.sense

        def sense():
            self.count[name] += 1
            return orig()
        s.sense = sense

    def t(self, x):
        v = x / self.unit
        if self.grid:
            if v != int(v):
                raise ValueError('time off the tick grid: %r' % (x,))
            return int(v)
        return int(round(v))

    def note_call(self, which, cid, sensor, time, data):
        name = 'P' if which is self.P else 'Q'
        # the sensor handed to the callback is the right one and its series are bounded and aligned right now
        probes = which.probes
        n0 = len(which.data[probes[0]])
        ok = all(len(which.data[p]) == n0 for p in probes) and n0 == min(self.count[name], which._data_capacity)
        if 'time' in which.data:
            ok = ok and len(which.data['time']) == min(self.tcount, which._data_capacity)
        ent = [cid, bool(sensor is which and ok), self.t(time), _val(copy.deepcopy(list(data)))]
        self.kept.append((data, copy.deepcopy(list(data))))       # a callback may keep the list it was given
        (self.pcalls if name == 'P' else self.qcalls).append(ent)

    def make_cb(self, s, cid):
        sensor = self.P if s == 'P' else self.Q

        def cb(sn, time, data):
            self.note_call(sensor, cid, sn, time, data)
        return cb

    def proj_sensor(self, name, s):
        probes = s.probes
        cap = INF if s._data_capacity == float('inf') else int(s._data_capacity)
        d = {'cap': cap, 'count': self.count[name], 'tcount': self.tcount if name == 'P' else 0,
             'tser': [self.t(v) for v in s.data.get('time', [])],
             'ser': [_val(s.data[p]) for p in probes],
             'last': _val(s.last_sense), 'cbs': list(self.cbs[name]), 'ncb': len(s._on_sense)}
        return d

    def project(self):
        env = self.env
        P = self.proj_sensor('P', self.P)
        P['iv'] = self.cfg['iv']
        nxt = [e.time for e in env._events if e.asset_id == self.P.id and not e.cancelled]
        P['next'] = self.t(nxt[0]) if nxt else 0
        Q = self.proj_sensor('Q', self.Q)
        Q['n'] = self.cfg['n']
        Q['nfin'] = self.nfin
        Q['cnt'] = int(self.Q._counter)
        keptok = all(list(ref) == cp for ref, cp in self.kept[-40:])
        return {'now': self.t(env.now), 'started': self.P.env is not None, 'grid': self.grid, 'keptok': keptok,
                'X': {'x': self.x.x, 'lst': list(self.x.lst)}, 'P': P, 'Q': Q, 'cms': list(self.cms_added)}

    def log(self, ev):
        self.lines.append({'tid': self.tid, 'k': self.k, 'ev': ev, 'st': self.project()})
        self.k += 1

    def _wrap_step(self):
        env = self.env
        orig = env.step

        def step():
            if self.first:
                self.first = False
                self.log({'op': 'start', 'pcalls': [], 'qcalls': []})
            self.pcalls, self.qcalls, self.fin = [], [], None
            e = env._events[0] if env._events else None
            kind = 'other'
            exact = True
            if e is not None and e.asset_id == self.P.id and not e.cancelled \
                    and e.event_type == self.sim.EventType.SENSOR:
                kind = 'psense'
                self.tcount += 1
                self.psense_times = self.psense_times + self.iv_float      # k-fold repeated addition
                exact = bool(e.time == self.psense_times)
            try:
                orig()
            finally:
                info = {'op': 'step', 'kind': kind, 'pcalls': self.pcalls, 'qcalls': self.qcalls}
                if kind == 'psense':
                    tl = self.P.data.get('time', [])
                    info['timeExact'] = bool(exact and tl and tl[-1] == self.psense_times)
                if self.fin is not None:
                    if kind == 'psense':
                        raise ValueError('a part finished inside a sensor event')
                    info['kind'] = 'finish'
                    info['fin'] = self.fin
                    self.log(info)
                    self.nfin += 1
                    # nfin is counted after the line so that the line's pre-state has the old count
                    self.lines[-1]['st']['Q']['nfin'] = self.nfin
                else:
                    self.log(info)
        env.step = step

    def apply(self, op):
        o = op['op']
        self.pcalls, self.qcalls = [], []
        if o == 'bump':
            self.x.x += 1
            self.x.lst.append(self.x.x)
            self.log({'op': 'bump', 'pcalls': [], 'qcalls': []})
        elif o == 'addcb':
            s = self.P if op['s'] == 'P' else self.Q
            s.add_on_sense_callback(self.make_cb(op['s'], op['id']))
            self.cbs[op['s']].append(op['id'])
            self.log({'op': 'addcb', 's': op['s'], 'id': op['id'], 'pcalls': [], 'qcalls': []})
        elif o == 'cms':
            s = self.P if op['s'] == 'P' else self.Q
            self.cms.add_sensor(s)
            if op['s'] not in self.cms_added:
                self.cms_added.append(op['s'])
                self.cbs[op['s']].append(9)
            self.log({'op': 'cms', 's': op['s'], 'pcalls': [], 'qcalls': []})
        elif o == 'msense':
            if self.P.env is None:      # sense() needs the environment: only once the simulation has started
                return
            self.P.sense()
            self.log({'op': 'msense', 'pcalls': self.pcalls, 'qcalls': []})
        elif o == 'run':
            if self.P.env is None:
                self.first = True
            self.system.simulate(op['d'] * TICK, print_summary=False)
        elif o == 'fail':
            if self.m1.env is None:       # a failure can only be scheduled once the simulation has started
                return
            self.m1.schedule_failure(self.env.now + op['dt'] * TICK)
            self.env.schedule_event(self.env.now + (op['dt'] + op['len']) * TICK, self.m1.id,
                                    self.m1.restore_functionality, self.sim.EventType.RESTORE)
        elif o != 'cfg':
            raise ValueError(o)


def run_sequence(tid, ops, seed=0):
    tr = None
    err = None
    try:
        tr = SnTracer(tid, ops[0], seed)
        for op in ops[1:]:
            tr.apply(op)
    except Exception as ex:
        err = '%s: %s' % (type(ex).__name__, ex)
    return (tr.lines if tr else []), 0, err


def run_random(tid, seed, n):
    rng = _pyrandom.Random(seed)
    cfg = {'op': 'cfg', 'iv': rng.choice([1, 2, 3, 5]), 'pcap': rng.choice([1, 2, 3, 4, INF]),
           'n': rng.choice([0, 1, 2, 3]), 'qcap': rng.choice([1, 2, 3, INF]), 'grid': True}
    if rng.random() < 0.35:
        ivf = rng.choice([0.1, 0.7, 0.3, 1.1])
        cfg.update(grid=False, ivf=ivf, iv=int(round(ivf * 1e6)))
    ops = [cfg]
    ids = {'P': [1, 2, 3], 'Q': [1, 2, 3]}
    for _ in range(n):
        x = rng.random()
        if x < 0.25:
            ops.append({'op': 'bump'})
        elif x < 0.4:
            s = rng.choice('PQ')
            if ids[s]:
                ops.append({'op': 'addcb', 's': s, 'id': ids[s].pop(0)})
        elif x < 0.5:
            ops.append({'op': 'cms', 's': rng.choice('PQ')})
        elif x < 0.56:
            ops.append({'op': 'msense'})
        elif x < 0.63:
            ops.append({'op': 'fail', 'dt': rng.choice([0, 1, 2, 3]), 'len': rng.choice([1, 2, 4])})
        else:
            ops.append({'op': 'run', 'd': rng.choice([0, 1, 2, 3, 5, 8])})
    ops.append({'op': 'run', 'd': 9})
    lines, _, err = run_sequence(tid, ops, seed)
    return lines, err, ops
