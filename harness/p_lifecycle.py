"""C20: system lifecycle.  Lifecycle.tla + LifecycleMC (design) + LifecycleTrace (real-code traces)."""
from .component import Component

COMP = Component(
    name='lifecycle', mc='LifecycleMC', trace='LifecycleTrace', driver='lifecycle_driver',
    tiers={
        'quick': dict(design_cfg='LifecycleMC_small.cfg', sim_num=2400, sim_depth=50, seeds_per_behaviour=1,
                      rnd_num=2400, rnd_len=22, design_timeout=900),
        'thorough': dict(design_cfg='LifecycleMC_thorough.cfg', sim_num=16000, sim_depth=60, seeds_per_behaviour=1,
                         rnd_num=20000, rnd_len=40, design_timeout=3000),
    },
    rule='design: TLC exhaustive over LifecycleMC within the cfg bounds (system creations, asset creations before the first run, '
         'between runs and from inside events, simulate calls on current and superseded systems, look-ups with all filter '
         'combinations); code: every TLC -simulate behaviour over all twelve asset kinds and seeded random scripts executed on the '
         'real System and asset classes (Asset.initialize wrapped to count calls), plus late-versus-twin scenario pairs for every '
         'kind; each recorded line validated by TLC against LifecycleTrace.tla',
    assumptions=['the system an asset registered with is observed through the public find_assets(id_=...)',
                 'late-versus-twin: the observable behaviour (recorded data, counters, callback logs; ids and uptime left out) is '
                 'serialised by the tracer and TLC checks equality; for sources, schedulers and periodic sensors the twin is a '
                 'fresh run shifted by the creation time',
                 'an event creating a System while a run is in progress is not modelled'])


def run(prop, tier):
    return COMP.run(prop, tier, crash_clause='C20.LibraryRaised')


def replay(sc):
    return COMP.replay(sc)
