"""Drives the real ActionScheduler (real System / Environment) along timetables and register /
unregister scripts and records traces for SchedTrace.tla.  Times are ticks of 0.25 time units."""
import random as _pyrandom

TICK = 0.25
USER = -7


def _t(x):
    v = x / TICK
    if v != int(v):
        raise ValueError('time off the tick grid: %r' % (x,))
    return int(v)


class Obj:
    def __init__(self, name):
        self.name = name


def _s(x):
    return 'n' if x is None else x


class UserAct:
    def __init__(self, tr, uid, act, obj, ov):
        self.tr, self.uid, self.act, self.obj, self.ov = tr, uid, act, obj, ov
        self.__name__ = 'user_%s' % act
        self.ret = None

    def __call__(self):
        self.ret = self.tr.do_reg(self.act, self.obj, self.ov)


class STracer:
    def __init__(self, tid, tt, cyc, seed):
        from simprocesd.model import System
        from simprocesd.model.factory_floor import ActionScheduler
        _pyrandom.seed(seed)
        tr = self
        self.tid = tid
        self.tt = [[int(d), s] for d, s in tt]
        self.cyc = cyc
        self.system = System()
        self.env = self.system.env

        class Sch(ActionScheduler):
            def default_action(self, obj, time, new_state):
                tr.calls.append([obj.name, 0])
                # during the call the scheduler is already in the new state
                tr.args.append([bool(self.current_state == new_state), _t(time), _s(new_state)])

        # the token 'n' stands for the state None (states may be any object, None included)
        sched = [(d * TICK, None if s == 'n' else s) for d, s in self.tt]
        if cyc == 'default':
            self.sch = Sch(sched, name='sch')
        else:
            self.sch = Sch(sched, name='sch', is_cyclical=(cyc == 'yes'))
        self.objs = {n: Obj(n) for n in ('O1', 'O2', 'O3')}
        self.calls, self.args = [], []
        self.reg = []
        self.nuid = 0
        self.first = False
        self.lines = []
        self.k = 0
        self._wrap_step()
        self.log({'op': 'cfg', 'tt': self.tt, 'cyc': cyc})

    def override(self, sched, obj, time, state):
        self.calls.append([obj.name, 1])
        self.args.append([bool(sched is self.sch and sched.current_state == state), _t(time), _s(state)])

    def do_reg(self, act, obj, ov):
        o = self.objs[obj]
        # the registry as the calls define it (independent of the library's bookkeeping)
        names = [r[0] for r in self.reg]
        if act == 'reg':
            if obj not in names:
                self.reg.append([obj, 1 if ov else 0])
            return bool(self.sch.register_object(o, self.override if ov else None))
        if obj in names:
            del self.reg[names.index(obj)]
        return bool(self.sch.unregister_object(o))

    def project(self):
        sch, env = self.sch, self.env
        started = sch.env is not None
        recs = env.simulation_data.get('schedule_update', {}).get(sch.name, [])
        evq = []
        for e in env._events:
            if e.asset_id == sch.id:
                evq.append({'kind': 'trans', 'time': _t(e.time), 'prio': int(round(e.event_type * 10)), 'act': '',
                            'obj': '', 'ov': 0, 'uid': 0})
            elif e.asset_id == USER:
                a = e.action
                evq.append({'kind': 'user', 'time': _t(e.time), 'prio': int(round(e.event_type * 10)), 'act': a.act,
                            'obj': a.obj, 'ov': a.ov, 'uid': a.uid})
        st = sch.current_state
        return {'now': _t(env.now), 'tt': self.tt, 'cyc': self.cyc != 'no',
                'idx': (sch._schedule_index + 1) if started else 0,
                'state': ('n' if started else '-') if st is None else st,      # before the start there is no state yet
                'reg': [list(r) for r in self.reg],
                'preg': [[o.name, 0 if a is None else 1] for o, a in sch._registered_objects.items()],
                'started': started, 'evq': evq, 'calls': [list(c) for c in self.calls],
                'nrec': len(recs), 'lastrec': [_t(recs[-1][0]), _s(recs[-1][1])] if recs else [0, '-'],
                'nuid': self.nuid + 1}

    def log(self, ev):
        self.lines.append({'tid': self.tid, 'k': self.k, 'ev': ev, 'st': self.project()})
        self.k += 1

    def _wrap_step(self):
        env = self.env
        orig = env.step

        guard = {'now': None, 'n': 0}

        def step():
            # a changed scheduler that re-arms itself at one instant for ever must end the run, not the machine's memory
            if guard['now'] == env.now:
                guard['n'] += 1
                if guard['n'] > 1500:
                    raise RuntimeError('NONTERMINATION: more than 1500 events dispatched at time %r' % (env.now,))
            else:
                guard['now'], guard['n'] = env.now, 0
            if self.first:
                self.first = False
                self.log({'op': 'step', 'kind': 'start', 'args': self.args})
            self.calls, self.args = [], []
            e = env._events[0] if env._events else None
            info = {'op': 'step', 'kind': 'other'}
            if e is not None and e.asset_id == self.sch.id:
                info['kind'] = 'trans'
            elif e is not None and e.asset_id == USER:
                info.update(kind='user', act=e.action.act, obj=e.action.obj, ov=e.action.ov)
            try:
                orig()
            finally:
                if info['kind'] == 'user':
                    info['ret'] = bool(e.action.ret)
                info['args'] = self.args
                self.log(info)
                self.calls, self.args = [], []
        env.step = step

    def apply(self, op):
        o = op['op']
        self.calls, self.args = [], []
        if o == 'register':
            ret = self.do_reg('reg', op['obj'], op['ov'])
            self.log({'op': 'register', 'obj': op['obj'], 'ov': op['ov'], 'ret': ret})
        elif o == 'unregister':
            ret = self.do_reg('unreg', op['obj'], 0)
            self.log({'op': 'unregister', 'obj': op['obj'], 'ret': ret})
        elif o == 'sched':
            self.nuid += 1
            a = UserAct(self, self.nuid, op['act'], op['obj'], op['ov'])
            self.env.schedule_event(self.env.now + op['dt'] * TICK, USER, a, op['prio'] / 10.0)
            self.log({'op': 'sched'})
        elif o == 'run':
            if self.sch.env is None:
                self.first = True
            self.system.simulate(op['d'] * TICK, print_summary=False)
        elif o != 'cfg':
            raise ValueError(o)


def run_sequence(tid, ops, seed=0):
    cfg = ops[0]
    tr = None
    err = None
    try:
        tr = STracer(tid, cfg['tt'], cfg['cyc'], seed)
        for op in ops[1:]:
            tr.apply(op)
    except Exception as ex:
        err = '%s: %s' % (type(ex).__name__, ex)
    return (tr.lines if tr else []), 0, err


def run_random(tid, seed, n):
    rng = _pyrandom.Random(seed)
    while True:
        tt = [[rng.choice([0, 1, 2, 3, 5, 6]), rng.choice('abc')] for _ in range(rng.randint(1, 4))]
        cyc = rng.choice(['yes', 'no', 'default'])
        if cyc == 'no' or sum(d for d, _ in tt) > 0:
            break
    if seed % 4 == 0:
        # every fourth timetable uses None as a state (drawn as 'c': the random stream is the same as before)
        tt = [[d, 'n' if st == 'c' else st] for d, st in tt]
    ops = [{'op': 'cfg', 'tt': tt, 'cyc': cyc}]
    for _ in range(n):
        x = rng.random()
        if x < 0.25:
            ops.append({'op': 'register', 'obj': rng.choice(['O1', 'O2', 'O3']), 'ov': rng.choice([0, 1])})
        elif x < 0.4:
            ops.append({'op': 'unregister', 'obj': rng.choice(['O1', 'O2', 'O3'])})
        elif x < 0.6:
            ops.append({'op': 'sched', 'dt': rng.choice([0, 1, 2, 3, 4, 6]), 'prio': rng.choice([50, 115]),
                        'act': rng.choice(['reg', 'unreg']), 'obj': rng.choice(['O1', 'O2', 'O3']), 'ov': 1})
        else:
            ops.append({'op': 'run', 'd': rng.choice([0, 1, 2, 3, 5, 9])})
    ops.append({'op': 'run', 'd': 12})
    lines, _, err = run_sequence(tid, ops, seed)
    return lines, err, ops
