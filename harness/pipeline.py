"""Steps shared by all property pipelines: design-level TLC runs, behaviour generation with
`tlc -simulate`, and batched trace validation (one single-worker JVM per shard, in parallel)."""
import glob
import json
import os
import subprocess
import time
from concurrent.futures import ThreadPoolExecutor

from . import common as C
from .tlaparse import last_state_var


def design_check(stage, module, cfg, workers=None, timeout=900, heap='8g', coverage=False, what=None):
    """Exhaustive TLC run of a closed specification.  A counterexample here is a defect of the
    specification (or of its bounds), i.e. a machinery failure, never a VIOLATION."""
    r = C.run_tlc(stage, module, cfg, workers=workers or C.NCPU, timeout=timeout, heap=heap,
                  coverage=coverage)
    C.tlc_machinery_ok(r, what or module)
    if r.invariant_violated or r.property_violated or not r.finished:
        tail = '\n'.join(r.out.splitlines()[-80:])
        raise C.MachineryError('design-level check %s/%s did not pass cleanly:\n%s' % (module, cfg, tail))
    return r


def simulate_behaviours(stage, module, cfg, num, depth, seed, var='hist', timeout=600, jobs=None):
    """Run `tlc -simulate file=...` (several JVMs with different seeds) and return the value of
    `var` in the last state of every generated behaviour."""
    jobs = jobs or min(C.NCPU, max(1, num // 200))
    per = (num + jobs - 1) // jobs

    def one(j):
        d = os.path.join(stage, 'sim_%s_%d' % (module, j))
        os.makedirs(d, exist_ok=True)
        r = C.run_tlc(stage, module, cfg, workers=1, timeout=timeout, heap='2g',
                      simulate='file=%s/b,num=%d' % (d, per), depth=depth, seed_=seed * 1000 + j)
        C.tlc_machinery_ok(r, '%s simulate' % module)
        if r.invariant_violated or r.property_violated:
            raise C.MachineryError('simulation of %s violated a design property:\n%s'
                                   % (module, '\n'.join(r.out.splitlines()[-60:])))
        vals = []
        for f in sorted(glob.glob(d + '/b_*')):
            with open(f) as fh:
                vals.append(last_state_var(fh.read(), var))
            os.unlink(f)
        return vals, r.generated
    out = []
    gen = 0
    with ThreadPoolExecutor(jobs) as ex:
        for vals, g in ex.map(one, range(jobs)):
            out.extend(vals)
            gen += g
    return out, gen


last_diffs = []


def validate_traces(stage, module, cfg, traces, shards=None, timeout=900, heap='3g', tag='t'):
    """traces: list of lists of line dicts (each line has tid, k).  Returns (fails, nlines, wall)
    where fails is a list of (tid, k, clause).  Every shard must report DONE with its line count."""
    traces = [t for t in traces if t]
    total = sum(len(t) for t in traces)
    # a JVM costs a few CPU-seconds to start and parse the modules: do not shard small batches finely
    shards = min(shards or C.NCPU, max(1, len(traces)), max(1, total // 1200))
    files = []
    counts = []
    for s in range(shards):
        path = os.path.join(stage, '%s_%s_%d.ndjson' % (tag, module, s))
        n = 0
        with open(path, 'w') as fh:
            for t in traces[s::shards]:
                for line in t:
                    fh.write(json.dumps(line, separators=(',', ':')))
                    fh.write('\n')
                    n += 1
        files.append(path)
        counts.append(n)

    def one(i):
        if counts[i] == 0:
            return [], 0.0
        r = C.run_tlc(stage, module, cfg, workers=1, timeout=timeout, heap=heap,
                      env={'TRACE_FILE': files[i]})
        C.tlc_machinery_ok(r, '%s trace validation' % module)
        done = r.tuples('DONE')
        if not done or done[-1][1] != counts[i]:
            raise C.MachineryError('%s: trace shard %d not fully consumed (%r of %d lines)\n%s'
                                   % (module, i, done, counts[i], '\n'.join(r.out.splitlines()[-40:])))
        if os.environ.get('VERIF_DIFF') == '1':
            import re as _re
            last_diffs.extend(m.group(0) for m in _re.finditer(r'<<\s*"DIFF".*?(?=\n<<|\nFinished|\Z)', r.out, _re.S))
        return [(f[1], f[2], f[3]) for f in r.tuples('FAIL')], r.wall
    t0 = time.time()
    fails = []
    with ThreadPoolExecutor(shards) as ex:
        for f, _ in ex.map(one, range(shards)):
            fails.extend(f)
    for p in files:
        try:
            os.unlink(p)
        except OSError:
            pass
    return fails, sum(counts), time.time() - t0


# ------------------------------------------------------------------------------------------
# result cache shared by properties decided by the same pipeline
# ------------------------------------------------------------------------------------------

_vh = []


def verif_hash():
    """Hash of the machinery itself (specs and harness), so edits to it invalidate the cache."""
    if not _vh:
        import hashlib
        h = hashlib.sha256()
        for sub in ('spec', 'harness'):
            for dp, dn, fn in sorted(os.walk(os.path.join(C.VERIF, sub))):
                dn.sort()
                for f in sorted(fn):
                    if f.endswith(('.py', '.tla', '.cfg')):
                        with open(os.path.join(dp, f), 'rb') as fh:
                            h.update(f.encode() + fh.read())
        kf = os.path.join(C.VERIF, 'known_findings.json')
        if os.path.exists(kf):
            with open(kf, 'rb') as fh:
                h.update(fh.read())
        _vh.append(h.hexdigest())
    return _vh[0]


def cached(name, tier, fn):
    key = '%s-%s-%s-%d' % (C.repo_tree_hash()[:16], verif_hash()[:12], tier, C.seed())
    d = os.path.join(C.VERIF, '.cache', key)
    p = os.path.join(d, name + '.json')
    if os.environ.get('VERIF_NO_CACHE') != '1' and os.path.exists(p):
        try:
            with open(p) as fh:
                res = json.load(fh)
            res['from_cache'] = True
            return res
        except Exception:
            pass
    res = fn()
    res['from_cache'] = False
    os.makedirs(d, exist_ok=True)
    tmp = p + '.%d.tmp' % os.getpid()
    with open(tmp, 'w') as fh:
        json.dump(res, fh, default=str)
    os.replace(tmp, p)
    # keep the cache small: drop entries of other trees
    try:
        root = os.path.join(C.VERIF, '.cache')
        for e in os.listdir(root):
            if e != key and not e.startswith(key.rsplit('-', 2)[0]):
                import shutil
                shutil.rmtree(os.path.join(root, e), True)
    except OSError:
        pass
    return res
