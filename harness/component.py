"""Generic pipeline for the self-contained components (maintainer, scheduler, sensors, lifecycle):

  1. design level: TLC exhaustive over the closed specification <X>MC within the cfg bounds;
  2. TLC -simulate behaviours of <X>MC (operation sequences in the history variable) are executed
     on the real classes, plus seeded random sequences;
  3. TLC validates every recorded line against the relations of <X>Trace.tla.

Clauses named Cxx.* are attributed to property Cxx; D.* clauses are exact agreement with the closed
specification and only count as specification divergences (never a VIOLATION).
"""
import time

from . import common as C
from . import pipeline as P


class Component:
    def __init__(self, name, mc, trace, driver, tiers, rule, assumptions, extra_files=None):
        self.name = name
        self.mc = mc
        self.trace = trace
        self.driver = driver          # module name under harness with run_sequence / run_random
        self.tiers = tiers
        self.rule = rule
        self.assumptions = assumptions
        self.extra_files = extra_files

    def _drv(self):
        return __import__('harness.' + self.driver, fromlist=['run_sequence'])

    def _replay(self, job):
        tid, ops, seed = job
        return self._drv().run_sequence(tid, ops, seed)

    def _random(self, job):
        tid, seed, n = job
        return self._drv().run_random(tid, seed, n)

    def stage(self, sub):
        extra = self.extra_files() if self.extra_files else None
        return C.stage_specs(C.scratch(sub), extra)

    def pipeline(self, tier):
        cfg = self.tiers[tier]
        t0 = time.time()
        stage = self.stage(self.name)
        res = {'tier': tier}
        d = P.design_check(stage, self.mc, cfg['design_cfg'], timeout=cfg.get('design_timeout', 900))
        res['design'] = {'states': d.distinct, 'transitions': d.generated, 'depth': d.depth,
                         'wall': round(d.wall, 1), 'cfg': cfg['design_cfg']}
        hists, gen = P.simulate_behaviours(stage, self.mc, self.mc + '_gen.cfg', cfg['sim_num'], cfg['sim_depth'],
                                           C.seed())
        nseeds = cfg.get('seeds_per_behaviour', 1)
        jobs = []
        for i, h in enumerate(hists):
            for s in range(nseeds):
                jobs.append((len(jobs) + 1, h, C.seed() * 7919 + s))
        out = C.parallel_map(self._replay, jobs)
        traces = [o[0] for o in out]
        scen = {j[0]: {'kind': 'tlc-behaviour', 'ops': j[1], 'seed': j[2]} for j in jobs}
        outcome_div = sum(o[1] for o in out)
        errs = [(j[0], o[2]) for j, o in zip(jobs, out) if o[2]]
        base = len(jobs)
        rjobs = [(base + i + 1, C.seed() * 1000003 + i, cfg['rnd_len']) for i in range(cfg['rnd_num'])]
        rout = C.parallel_map(self._random, rjobs)
        for j, o in zip(rjobs, rout):
            traces.append(o[0])
            scen[j[0]] = {'kind': 'random', 'ops': o[2], 'seed': j[1]}
            if o[1]:
                errs.append((j[0], o[1]))
        fails, nlines, wall = P.validate_traces(stage, self.trace, self.trace + '.cfg', traces)
        res.update(traces=len(traces), spec_behaviours=len(jobs), lines=nlines, validate_wall=round(wall, 1))
        ops_count = {}
        for t in traces:
            for ln in t:
                key = ln['ev']['op'] + (':' + ln['ev']['kind'] if 'kind' in ln['ev'] else '')
                ops_count[key] = ops_count.get(key, 0) + 1
        res['exercised'] = ops_count
        by_trace = {}
        ndiv = 0
        divs = []
        for tid, k, clause in fails:
            if clause.startswith('D.'):
                ndiv += 1
                if len(divs) < 5:
                    divs.append({'tid': tid, 'k': k, 'clause': clause, 'ops': scen[tid].get('ops'),
                                 'seed': scen[tid].get('seed')})
                continue
            by_trace.setdefault(tid, []).append((k, clause))
        res['spec_divergences'] = ndiv + outcome_div
        res['divergence_samples'] = divs
        vio = []
        for tid, fl in sorted(by_trace.items()):
            fl.sort()
            seen = set()
            for k, clause in fl:
                if clause in seen:
                    continue
                seen.add(clause)
                vio.append({'tid': tid, 'k': k, 'clause': clause, 'scenario': scen[tid]})
        res['driver_errors'] = [{'tid': t, 'error': e, 'scenario': scen[t]} for t, e in errs[:20]]
        res['n_driver_errors'] = len(errs)
        counts = {}
        keep = []
        for x in vio:
            counts[x['clause']] = counts.get(x['clause'], 0) + 1
            if counts[x['clause']] <= 40:
                keep.append(x)
        res['clause_counts'] = counts
        res['violations'] = keep[:600]
        res['n_violations'] = len(vio)
        res['samples'] = [scen[1]['ops'] if 1 in scen else None,
                          scen[base + 1]['ops'][:12] if rjobs else None]
        res['wall'] = round(time.time() - t0, 1)
        return res

    def result(self, tier):
        return P.cached(self.name, tier, lambda: self.pipeline(tier))

    def run(self, prop, tier, crash_clause=None, floor_clauses=False):
        """crash_clause: clause name under which an exception escaping the library during a driven
        scenario is reported for this property (None: such a crash is a machinery failure)."""
        t0 = time.time()
        res = self.result(tier)
        v = C.Verdict(prop)
        if res['driver_errors']:
            if crash_clause and crash_clause.startswith(prop + '.'):
                for e in res['driver_errors']:
                    v.add(key='%s:%s' % (prop, crash_clause.split('.', 1)[1]), clause=crash_clause,
                          what='trace %d: the library raised %s' % (e['tid'], e['error']),
                          replay={'pipeline': self.name, 'ops': e['scenario'].get('ops'),
                                  'kind': e['scenario'].get('kind'), 'seed': e['scenario'].get('seed'),
                                  'error': e['error']})
            elif not crash_clause:
                raise C.MachineryError('%s driver crashed: %r' % (self.name, res['driver_errors'][0]))
        for x in res['violations']:
            if not x['clause'].startswith(prop + '.'):
                continue
            v.add(key='%s:%s' % (prop, x['clause'].split('.', 1)[1]), clause=x['clause'],
                  what='trace %d line %d fails %s' % (x['tid'], x['k'], x['clause']),
                  replay={'pipeline': self.name, 'ops': x['scenario'].get('ops'), 'kind': x['scenario'].get('kind'),
                          'seed': x['scenario'].get('seed'), 'line': x['k']})
        floor = None
        if floor_clauses:
            # the property also quantifies over the component inside arbitrary lines: its clauses on the
            # factory-floor traces (FloorObs.tla) are part of this check
            from . import p_floor
            fres = p_floor.result(tier)
            floor = {'floor_trace_lines': fres['lines'], 'floor_configurations': fres.get('configs'),
                     'floor_spec_divergences': fres.get('spec_divergences')}
            for x in fres['violations']:
                if x['clause'].startswith(prop + '.'):
                    v.add(key='%s:%s' % (prop, x['clause'].split('.', 1)[1]), clause=x['clause'],
                          what='floor configuration %d (%s) line %d fails %s' % (x['cid'], x['family'], x['k'], x['clause']),
                          replay={'pipeline': 'floor', 'cfg': x['cfg'], 'seed': x['seed'], 'line': x['k']})
        lines, rc = v.finish()
        cov = {
            'states': res['design']['states'], 'transitions': res['design']['transitions'],
            'traces_validated_against_impl': res['traces'],
            'samples': res['samples'],
            'exhaustive': True,
            'design': res['design'],
            'impl_trace_lines': res['lines'],
            'on_floor_traces': floor,
            'exercised': res['exercised'],
            'spec_behaviours_replayed': res['spec_behaviours'],
            'spec_divergences': res['spec_divergences'],
            'divergence_samples': res.get('divergence_samples', []),
            'from_cache': res['from_cache'],
            'known_findings_hit': v.known_hits,
            'rule': self.rule,
        }
        C.write_evidence(prop, tier, cov, time.time() - t0 if not res['from_cache'] else res['wall'],
                         len(v.unlisted), self.assumptions)
        return lines, rc

    def replay(self, sc):
        stage = self.stage(self.name + '_replay')
        lines, _, err = self._drv().run_sequence(1, sc['ops'], sc.get('seed') or 0)
        fails, n, _ = P.validate_traces(stage, self.trace, self.trace + '.cfg', [lines], shards=1)
        return [f for f in fails if not f[2].startswith('D.')], err
