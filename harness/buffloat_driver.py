"""C05 off the exact grid: lines source -> buffer -> handler(s) -> sink with delays and cycle times such as
0.1, 0.3, 1/3, 0.7; observation through public receive callbacks and Buffer.level()/stored_parts; the
"earlier than arrival + delay by more than one rounding unit" test is computed with exact rationals."""
import math
import random
from fractions import Fraction


def run(tid, seed):
    from simprocesd.model import System
    from simprocesd.model.factory_floor import Source, Buffer, PartHandler, PartProcessor, Sink
    rng = random.Random(seed)
    random.seed(seed)
    vals = [0.1, 0.3, 1 / 3, 0.7, 0.25, 1.1, 0.2, 2 / 3]
    system = System()
    delay = rng.choice(vals + [0.1, 0.3])
    cap = rng.choice([1, 2, 3, None])
    src = Source('s', cycle_time=rng.choice(vals))
    pre = PartHandler('h0', [src], cycle_time=rng.choice([0, 0.1, 0.3]))
    buf = Buffer('b', [pre], minimum_delay=delay, capacity=cap)
    k = rng.choice([1, 2])
    cons = [PartProcessor('c%d' % i, [buf], cycle_time=rng.choice(vals)) for i in range(k)]
    Sink('k', cons)
    arr, dep = {}, {}
    order_in, order_out = [], []
    stats = {'maxlevel': 0}

    def on_buf(b, part):
        arr[part.id] = system.env.now
        order_in.append(part.id)
    buf.add_receive_part_callback(on_buf)

    def on_cons(c, part):
        dep[part.id] = system.env.now
        order_out.append(part.id)
        stats['maxlevel'] = max(stats['maxlevel'], buf.level())
    for c in cons:
        c.add_receive_part_callback(on_cons)
    system.simulate(rng.choice([20, 40]), print_summary=False)
    lines = []
    for i, pid in enumerate(order_out):
        a, d = arr[pid], dep[pid]
        ulp = Fraction(math.nextafter(d, math.inf)) - Fraction(d)
        early = (Fraction(a) + Fraction(delay) - Fraction(d)) > ulp
        lines.append({'tid': tid, 'k': i, 'ev': {'early': bool(early), 'arrank': order_in.index(pid), 'deprank': i,
                                                'cap': -1 if cap is None else cap, 'maxlevel': stats['maxlevel'],
                                                'level': buf.level(), 'stored': len(buf.stored_parts)}})
    return lines
