"""C05 off the exact grid: lines source -> buffer -> handler(s) -> sink with delays and cycle times such as
0.1, 0.3, 1/3, 0.7; observation through public receive callbacks and Buffer.level()/stored_parts; the
"earlier than arrival + delay by more than one rounding unit" test is computed with exact rationals."""
import math
import random
from fractions import Fraction


def run_late(tid, seed):
    """The same contract late in a long run (clock about 10^6, where one rounding unit of the clock is ~10^-10 but
    a relative tolerance would be ~10^-3): two parts reach the buffer 10 + eps apart, the exit is closed until the
    first is due and opens exactly then; the second must wait its own delay, eps longer."""
    from simprocesd.model import System, EventType
    from simprocesd.model.factory_floor import Source, Buffer, PartFlowController, Sink
    rng = random.Random(seed)
    random.seed(seed)
    T = rng.choice([1048576.0, 1000000.0, 3000000.0])
    eps = rng.choice([0.0005, 0.0001, 0.0009, 0.00025])
    delay = rng.choice([10, 10, 8])
    system = System()
    env = system.env
    s1 = Source('s1', cycle_time=10, starting_parts=0)
    s2 = Source('s2', cycle_time=10, starting_parts=0)
    buf = Buffer('b', [s1, s2], minimum_delay=delay, capacity=None)
    gate = PartFlowController('g', [buf])
    sink = Sink('k', [gate])
    gate.block_input = True
    arr, dep, order_in, order_out = {}, {}, [], []
    buf.add_receive_part_callback(lambda b, part: (arr.__setitem__(part.id, env.now), order_in.append(part.id)))
    sink.add_receive_part_callback(lambda k, part: (dep.__setitem__(part.id, env.now), order_out.append(part.id)))
    # (an idle source that is given a part to make hands it over at once: its cycle has long elapsed)
    env.schedule_event(T - delay - 10, -1, lambda: s1.adjust_part_count(1), EventType.OTHER_HIGH_PRIORITY)
    env.schedule_event(T - delay + eps, -1, lambda: s2.adjust_part_count(1), EventType.OTHER_HIGH_PRIORITY)
    env.schedule_event(T, -1, lambda: setattr(gate, 'block_input', False), EventType.OTHER_LOW_PRIORITY)
    system.simulate(T + 30, print_summary=False)
    lines = []
    for i, pid in enumerate(order_out):
        a, d = arr[pid], dep[pid]
        ulp = Fraction(math.nextafter(d, math.inf)) - Fraction(d)
        early = (Fraction(a) + Fraction(delay) - Fraction(d)) > ulp
        lines.append({'tid': tid, 'k': i, 'ev': {'early': bool(early), 'arrank': order_in.index(pid), 'deprank': i,
                                                'cap': -1, 'maxlevel': 0, 'level': buf.level(), 'stored': len(buf.stored_parts)}})
    if len(lines) != 2:      # both parts must have arrived and left
        lines.append({'tid': tid, 'k': len(lines), 'ev': {'early': False, 'arrank': 0, 'deprank': 1, 'cap': -1, 'maxlevel': 0,
                                                          'level': buf.level(), 'stored': len(buf.stored_parts)}})
    return lines


def run(tid, seed):
    if seed % 6 == 5:
        return run_late(tid, seed)
    from simprocesd.model import System
    from simprocesd.model.factory_floor import Source, Buffer, PartHandler, PartProcessor, Sink
    rng = random.Random(seed)
    random.seed(seed)
    vals = [0.1, 0.3, 1 / 3, 0.7, 0.25, 1.1, 0.2, 2 / 3]
    system = System()
    delay = rng.choice(vals + [0.1, 0.3])
    cap = rng.choice([1, 2, 3, None])
    src = Source('s', cycle_time=rng.choice(vals))
    pre = PartHandler('h0', [src], cycle_time=rng.choice([0, 0.1, 0.3]))
    buf = Buffer('b', [pre], minimum_delay=delay, capacity=cap)
    k = rng.choice([1, 2])
    cons = [PartProcessor('c%d' % i, [buf], cycle_time=rng.choice(vals)) for i in range(k)]
    Sink('k', cons)
    arr, dep = {}, {}
    order_in, order_out = [], []
    stats = {'maxlevel': 0}

    def on_buf(b, part):
        arr[part.id] = system.env.now
        order_in.append(part.id)
    buf.add_receive_part_callback(on_buf)

    def on_cons(c, part):
        dep[part.id] = system.env.now
        order_out.append(part.id)
        stats['maxlevel'] = max(stats['maxlevel'], buf.level())
    for c in cons:
        c.add_receive_part_callback(on_cons)
    system.simulate(rng.choice([20, 40]), print_summary=False)
    lines = []
    for i, pid in enumerate(order_out):
        a, d = arr[pid], dep[pid]
        ulp = Fraction(math.nextafter(d, math.inf)) - Fraction(d)
        early = (Fraction(a) + Fraction(delay) - Fraction(d)) > ulp
        lines.append({'tid': tid, 'k': i, 'ev': {'early': bool(early), 'arrank': order_in.index(pid), 'deprank': i,
                                                'cap': -1 if cap is None else cap, 'maxlevel': stats['maxlevel'],
                                                'level': buf.level(), 'stored': len(buf.stored_parts)}})
    return lines
