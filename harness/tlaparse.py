"""Parser for TLA+ values as printed by TLC (state dumps, simulate files, error traces).

records -> dict, sequences/tuples -> list, sets -> list tagged {'#set': [...]} (or plain list with
sets_as_lists), functions (k :> v @@ ...) -> dict with parsed keys as repr strings unless all keys
are ints/strings, strings/ints/booleans -> Python values, model values -> str.
"""
import re

_tok = re.compile(r'\s*(<<|>>|\|->|:>|@@|\.\.|[\[\]{}(),]|"(?:[^"\\]|\\.)*"|-?\d+|[A-Za-z_][A-Za-z0-9_!]*)')


class P:
    def __init__(self, s):
        self.toks = _tok.findall(s)
        self.i = 0

    def peek(self):
        return self.toks[self.i] if self.i < len(self.toks) else None

    def eat(self, t=None):
        x = self.toks[self.i]
        if t is not None and x != t:
            raise ValueError('expected %r got %r at token %d' % (t, x, self.i))
        self.i += 1
        return x

    def value(self):
        t = self.peek()
        if t == '<<':
            self.eat()
            items = []
            while self.peek() != '>>':
                items.append(self.value())
                if self.peek() == ',':
                    self.eat()
            self.eat('>>')
            return items
        if t == '{':
            self.eat()
            items = []
            while self.peek() != '}':
                items.append(self.value())
                if self.peek() == ',':
                    self.eat()
            self.eat('}')
            return items
        if t == '[':
            self.eat()
            d = {}
            while self.peek() != ']':
                k = self.eat()
                self.eat('|->')
                d[k] = self.value()
                if self.peek() == ',':
                    self.eat()
            self.eat(']')
            return d
        if t == '(':
            self.eat()
            d = {}
            while self.peek() != ')':
                k = self.value()
                self.eat(':>')
                d[k if isinstance(k, (int, str)) else repr(k)] = self.value()
                if self.peek() == '@@':
                    self.eat()
            self.eat(')')
            return d
        self.eat()
        if t[0] == '"':
            return re.sub(r'\\(.)', lambda m: {'n': '\n', 't': '\t'}.get(m.group(1), m.group(1)), t[1:-1])
        if re.match(r'-?\d+$', t):
            v = int(t)
            if self.peek() == '..':
                self.eat()
                hi = int(self.eat())
                return list(range(v, hi + 1))
            return v
        if t == 'TRUE':
            return True
        if t == 'FALSE':
            return False
        return t


def parse_value(s):
    return P(s).value()


def parse_state(text):
    """'/\\ x = v /\\ y = w' -> {x: v, y: w}"""
    parts = re.split(r'^/\\ (\w+) = ', text.strip(), flags=re.M)
    st = {}
    for i in range(1, len(parts), 2):
        st[parts[i]] = parse_value(parts[i + 1])
    return st


def parse_behaviour(text):
    """A simulate file or the error-trace part of TLC output: list of (action, state dict)."""
    res = []
    # simulate files: 'STATE_n == ' blocks with '\* <Action ...>' comments; error traces: 'State n: <...>'
    blocks = re.split(r'^(?:STATE_\d+ ==|State \d+:)(.*)$', text, flags=re.M)
    for i in range(1, len(blocks), 2):
        head = blocks[i]
        body = blocks[i + 1]
        body = body.split('\n\n')[0] if 'State ' in text[:2000] and 'STATE_' not in text[:2000] else body
        body = re.split(r'^=+\s*$', body, flags=re.M)[0]
        m = re.search(r'<(\w+)', head)
        act = m.group(1) if m else None
        if '/\\' not in body:
            continue
        res.append((act, parse_state(body)))
    return res


def last_state_var(text, var):
    """Value of `var` in the last state of a simulate file (cheap path: only that variable)."""
    idx = text.rfind('STATE_')
    blk = text[idx:]
    m = re.search(r'^/\\ %s = (.*?)(?=^/\\ \w+ = |^=+\s*$|\Z)' % re.escape(var), blk, flags=re.M | re.S)
    if not m:
        raise ValueError('variable %s not found' % var)
    return parse_value(m.group(1))
