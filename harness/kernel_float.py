"""C01 off the grid: float event times that are nearly equal (0.1 + 0.2 vs 0.3, 0.1 * 7 vs 0.7)."""
import random


def run(tid, seed):
    import simprocesd.model.simulation as sim
    rng = random.Random(seed)
    random.seed(seed)
    env = sim.Environment()
    steps = []
    ran = {}
    lines = []
    base = [0.1, 0.2, 0.3, 0.7, 0.1 + 0.2, 0.1 * 7, 0.6, 0.1 * 3, 1.0, 0.9999999999999999, 0.5]
    prios = [2, 4.9, 5, 5.5, 7, 8, 11]
    counter = [0]

    def make(depth):
        counter[0] += 1
        me = counter[0]

        def act():
            ran[me] = ran.get(me, 0) + 1
            if depth < 2 and rng.random() < 0.5:
                env.schedule_event(env.now + rng.choice([0.1, 0.2, 0.1 + 0.2, 0.3]), rng.choice([1, 2, -1]), make(depth + 1),
                                   rng.choice(prios))
        act.__name__ = 'act_%d' % me
        act.me = me
        return act
    orig = env.step

    def step():
        ev = env._events
        h = ev[0]
        minhead = all((h.time, -h.event_type) <= (x.time, -x.event_type) for x in ev)
        before = env.now
        me = getattr(h.action, 'me', None)
        n0 = ran.get(me, 0)
        orig()
        lines.append({'tid': tid, 'k': len(lines), 'ev': {'op': 'step', 'minhead': bool(minhead), 'clockeq': bool(env.now == h.time),
                                                        'mono': bool(env.now >= before),
                                                        'once': bool(me is None or ran.get(me, 0) <= 1)}})
    env.step = step
    for _ in range(rng.randint(3, 8)):
        t = sum(rng.choice(base) for _ in range(rng.choice([1, 1, 2, 3])))
        env.schedule_event(t, rng.choice([1, 2, 3, -1]), make(0), rng.choice(prios))
    for _ in range(rng.choice([1, 2, 3])):
        d = rng.choice([0.3, 0.7, 0.1 + 0.2, 1.0, 0.5])
        t0 = env.now
        try:
            env.run(d)
        except Exception:
            # run() with a positive duration must not raise: reported as a run that did not complete
            lines.append({'tid': tid, 'k': len(lines), 'ev': {'op': 'run', 'endeq': False, 'nodue': False, 'pastrejected': True}})
            break
        past = True
        if env.now > 0:
            try:
                env.schedule_event(env.now - 1e-12, 1, make(9), 7)
                past = False
            except ValueError:
                past = True
        nodue = all(x.time > env.now or (x.time == env.now and x.event_type <= 1) or x.cancelled for x in env._events)
        lines.append({'tid': tid, 'k': len(lines), 'ev': {'op': 'run', 'endeq': bool(env.now == t0 + d), 'nodue': bool(nodue),
                                                        'pastrejected': past}})
        if rng.random() < 0.5:
            env.schedule_event(env.now + rng.choice(base), rng.choice([1, -1]), make(0), rng.choice(prios))
    return lines
