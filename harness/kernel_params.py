"""Program alphabet of event bodies shared by Kernel.tla (as KernelBodies.tla) and the driver."""
from .common import to_tla

# code, a, b, c, child  (sched: a = delay, b = prio*10, c = asset; pause/unpause/cancel: a = asset)
BODIES = [
    {'code': 'sched', 'a': 0, 'b': 70, 'c': 1, 'child': 0},     # 1 same instant, PASS_PART prio
    {'code': 'sched', 'a': 1, 'b': 50, 'c': 2, 'child': 0},     # 2 later, FAIL prio
    {'code': 'sched', 'a': 2, 'b': 55, 'c': 1, 'child': 1},     # 3 later, fractional prio, child spawns again
    {'code': 'pause', 'a': 1, 'b': 0, 'c': 0, 'child': 0},      # 4
    {'code': 'pause', 'a': 2, 'b': 0, 'c': 0, 'child': 0},      # 5
    {'code': 'unpause', 'a': 1, 'b': 0, 'c': 0, 'child': 0},    # 6
    {'code': 'unpause', 'a': 2, 'b': 0, 'c': 0, 'child': 0},    # 7
    {'code': 'cancel', 'a': 1, 'b': 0, 'c': 0, 'child': 0},     # 8
    {'code': 'cancel', 'a': 2, 'b': 0, 'c': 0, 'child': 0},     # 9
    {'code': 'sched', 'a': -1, 'b': 70, 'c': 1, 'child': 0},    # 10 into the past: must be rejected
    {'code': 'sched', 'a': 0, 'b': 110, 'c': 2, 'child': 4},    # 11 same instant, highest prio, child pauses 1
    {'code': 'sched', 'a': 0, 'b': 49, 'c': 1, 'child': 0},     # 12 same instant, FAIL - 0.1
    {'code': 'sched', 'a': 0, 'b': 20, 'c': 2, 'child': 6},     # 13 same instant, lowest; child unpauses 1
]


def bodies_module():
    rows = ',\n  '.join(to_tla(b) for b in BODIES)
    return ('---------------------------- MODULE KernelBodies ----------------------------\n'
            '(* Program alphabet of event bodies.  GENERATED from harness/kernel_params.py *)\n'
            '(* (the Python driver uses the same table); this copy is kept for reading and *)\n'
            '(* for tla-sany.                                                              *)\n'
            'EXTENDS Integers\nBodies == <<\n  ' + rows + '\n>>\n'
            '=============================================================================\n')
