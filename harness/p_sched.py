"""C18: the action scheduler.  Sched.tla + SchedMC (design) + SchedTrace (real-code traces)."""
from .component import Component

COMP = Component(
    name='sched', mc='SchedMC', trace='SchedTrace', driver='sched_driver',
    tiers={
        'quick': dict(design_cfg='SchedMC_small.cfg', sim_num=2400, sim_depth=60, seeds_per_behaviour=1,
                      rnd_num=2000, rnd_len=25, design_timeout=900),
        'thorough': dict(design_cfg='SchedMC_thorough.cfg', sim_num=12000, sim_depth=80, seeds_per_behaviour=2,
                         rnd_num=16000, rnd_len=50, design_timeout=7000),
    },
    rule='design: TLC exhaustive over SchedMC within the cfg bounds (every timetable of the bounded family, cyclical / not / '
         'unspecified, register and unregister calls before the run, between runs and from other events at higher and lower '
         'priority than the scheduler, every tie-break); code: every TLC -simulate behaviour and seeded random scripts (longer '
         'timetables, more states) executed on the real ActionScheduler + System; each recorded call and dispatched event '
         'validated by TLC against SchedTrace.tla, whose expectations are computed from the timetable alone (prefix sums, period)',
    assumptions=['durations are multiples of 0.25 time units (exact binary floats); cyclical timetables of total duration 0 are '
                 'ill-posed and excluded',
                 'scheduler state is projected from current_state, the schedule_update records, the action invocations seen by '
                 'the registered objects, and ActionScheduler._registered_objects/_schedule_index',
                 'actions do not register or unregister objects themselves (the library iterates its registry while calling them)'])


def run(prop, tier):
    return COMP.run(prop, tier, crash_clause='C18.LibraryRaised', floor_clauses=True)


def replay(sc):
    return COMP.replay(sc)
