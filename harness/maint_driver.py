"""Drives the real Maintainer (real System / Environment, scripted Maintainable targets) along
request streams and records traces for MaintTrace.tla.

Targets report needed capacity, duration and cost from the same tables as Maint.tla and run the same
hook programs (requests issued from inside start_work / end_work).  Tie-breaks between simultaneous
events are the library's own (random module seeded per trace).
"""
import random as _pyrandom

INF = 99
CAP = {('T1', 'x'): 1, ('T1', 'y'): 2, ('T2', 'x'): 0, ('T2', 'y'): 3}
DUR = {('T1', 'x'): 2, ('T1', 'y'): 0, ('T2', 'x'): 5, ('T2', 'y'): 2}
COST = {('T1', 'x'): 1, ('T1', 'y'): 0, ('T2', 'x'): 3, ('T2', 'y'): 2}


def cap_of(t, g):
    return CAP.get((t, g), 1)


def dur_of(t, g, now):
    return DUR.get((t, g), 0) + (1 if t == 'T2' and now >= 4 else 0)


def cost_of(t, g):
    return COST.get((t, g), 1)


def _t(x):
    if x != int(x):
        raise ValueError('non-integer time in maintainer trace: %r' % (x,))
    return int(x)


class MTracer:
    def __init__(self, tid, cap, prog, seed):
        from simprocesd.model import System
        from simprocesd.model.factory_floor import Maintainer, Maintainable
        import simprocesd.model.simulation as sim
        self.sim = sim
        _pyrandom.seed(seed)
        self.tid = tid
        self.cap = cap
        self.prog = prog
        self.system = System()
        self.env = self.system.env
        self.mt = Maintainer(name='mt', capacity=float('inf') if cap == INF else cap)
        tr = self

        class Target(Maintainable):
            def __init__(self, name):
                self.name = name

            def get_work_order_duration(self, tag):
                return dur_of(self.name, tag, _t(tr.env.now))

            def get_work_order_capacity(self, tag):
                return cap_of(self.name, tag)

            def get_work_order_cost(self, tag):
                return cost_of(self.name, tag)

            def start_work(self, tag):
                now = _t(tr.env.now)
                tr.hooks.append(['start', self.name, tag])
                tr.started.append({'t': self.name, 'g': tag, 'at': now, 'dur': dur_of(self.name, tag, now)})
                if tr.prog == 1 and self.name == 'T1':
                    tr.mt.create_work_order(tr.targets['T2'], 'x')

            def end_work(self, tag):
                tr.hooks.append(['end', self.name, tag])
                tr.started = [s for s in tr.started if not (s['t'] == self.name and s['g'] == tag)]
                if tr.prog == 2 and self.name == 'T1' and tag == 'x':
                    tr.mt.create_work_order(tr.targets['T1'], 'y')
                elif tr.prog == 3 and self.name == 'T2':
                    tr.mt.create_work_order(tr.targets['T1'], 'x')

        self.targets = {n: Target(n) for n in ('T1', 'T2', 'T3')}
        self.hooks = []
        self.started = []
        self.nrec = {'enter_queue': 0, 'start_work_order': 0, 'finish_work_order': 0}
        self.lines = []
        self.k = 0
        self.system.simulate(0, print_summary=False)      # initialises the maintainer
        self._wrap_step()
        self.log({'op': 'cfg', 'cap': cap, 'prog': prog})

    def new_recs(self):
        out = []
        sd = self.env.simulation_data
        for label in ('enter_queue', 'start_work_order', 'finish_work_order'):
            lst = sd.get(label, {}).get(self.mt.name, [])
            for r in lst[self.nrec[label]:]:
                out.append((r[0], [label, _t(r[0]), r[1], r[2]]))
            self.nrec[label] = len(lst)
        # keep the order in which the records were written as far as it is observable: by label
        # groups; within one step at most one start and one finish record exist
        return [r[1] for r in out]

    def proj_order(self, o):
        return {'t': getattr(o.target, 'name', '?'), 'g': o.tag, 'c': _t(o.needed_capacity)}

    def proj_event(self, e):
        kind = {int(self.sim.EventType.START_WORK): 'start', int(self.sim.EventType.FINISH_WORK): 'finish'}.get(
            e.event_type, 'other')
        req = getattr(e.action, 'keywords', {}).get('request') if hasattr(e.action, 'keywords') else None
        return {'kind': kind, 't': getattr(getattr(req, 'target', None), 'name', '?'),
                'g': getattr(req, 'tag', '?'), 'time': _t(e.time)}

    def project(self):
        mt = self.mt
        cap = INF if mt.total_capacity == float('inf') else _t(mt.total_capacity)
        util = _t(mt._utilization)
        avail = mt.available_capacity
        avail = INF - util if avail == float('inf') else _t(avail)
        evq = [self.proj_event(e) for e in self.env._events + self.env._paused_events
               if e.asset_id == mt.id and not e.cancelled]
        return {'now': _t(self.env.now), 'cap': cap, 'prog': self.prog,
                'queue': [self.proj_order(o) for o in mt._request_queue],
                'active': [self.proj_order(o) for o in mt._active_requests],
                'util': util, 'cost': _t(-mt.value), 'evq': evq,
                'started': [dict(s) for s in self.started], 'avail': avail}

    def log(self, ev):
        self.lines.append({'tid': self.tid, 'k': self.k, 'ev': ev, 'st': self.project()})
        self.k += 1

    def _wrap_step(self):
        env = self.env
        orig = env.step

        def step():
            e = env._events[0] if env._events else None
            self.hooks = []
            info = {'op': 'step', 'kind': 'other', 't': '', 'g': '', 'time': 0}
            if e is not None:
                if e.asset_id == self.mt.id and not e.cancelled:
                    info.update(self.proj_event(e))
                elif e.asset_id == -1:
                    info['kind'] = 'term'
                info['time'] = _t(e.time)
            try:
                orig()
            finally:
                info['recs'] = self.new_recs()
                info['hooks'] = self.hooks
                self.log(info)
        env.step = step

    def apply(self, op):
        o = op['op']
        if o == 'create':
            self.hooks = []
            ret = self.mt.create_work_order(self.targets[op['t']], op['g'])
            self.log({'op': 'create', 't': op['t'], 'g': op['g'], 'ret': bool(ret), 'recs': self.new_recs(),
                      'hooks': self.hooks})
            return bool(ret)
        if o == 'run':
            self.system.simulate(op['d'], print_summary=False)
            return None
        if o == 'cfg':
            return None
        raise ValueError(o)


def run_sequence(tid, ops, seed=0):
    cfg = ops[0]
    err = None
    div = 0
    tr = None
    try:
        tr = MTracer(tid, cfg['cap'], cfg['prog'], seed)
        for op in ops[1:]:
            # the return value the behaviour expects depends on the tie-breaks TLC chose; the run uses the
            # library's own tie-breaks, so a different return value is not a divergence (the recorded
            # lines are judged against the logged pre-state by MaintTrace)
            tr.apply(op)
    except Exception as ex:
        err = '%s: %s' % (type(ex).__name__, ex)
    return (tr.lines if tr else []), div, err


def run_random(tid, seed, n):
    rng = _pyrandom.Random(seed)
    ops = [{'op': 'cfg', 'cap': rng.choice([1, 2, 3, 4, INF]), 'prog': rng.choice([0, 0, 1, 2, 3])}]
    for _ in range(n):
        if rng.random() < 0.65:
            ops.append({'op': 'create', 't': rng.choice(['T1', 'T2', 'T3']), 'g': rng.choice(['x', 'y'])})
        else:
            ops.append({'op': 'run', 'd': rng.choice([0, 1, 1, 2, 3, 5])})
    ops.append({'op': 'run', 'd': 7})
    lines, _, err = run_sequence(tid, ops, seed)
    return lines, err, ops
