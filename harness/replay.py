"""./check replay <path>: re-run the scenario of a recorded violation on the current tree."""
import json

from . import common as C
from . import pipeline as P


def main(path):
    with open(path) as fh:
        rec = json.load(fh)
    sc = rec['scenario']
    pipe = sc.get('pipeline')
    mod = __import__('harness.p_' + pipe, fromlist=['replay'])
    fails, info = mod.replay(sc)
    print('replay of %s (%s, clause %s)' % (path, rec['property'], rec['clause']))
    for f in fails:
        print('  fails %s at line %s' % (f[2], f[1]))
    if info:
        print('  ' + str(info))
    hit = [f for f in fails if f[2].startswith(rec['property'] + '.')]
    if hit:
        print('VIOLATION property=%s replay=%s' % (rec['property'], path))
        return 1
    print('no violation of %s on the current tree' % rec['property'])
    return 0
