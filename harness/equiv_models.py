"""Index-dependent model for System.simulate_multiple_times (module level, so that it can be
pickled for worker processes) and the normalised summary of a returned System."""
import random


def sim_model(system, index, seed, horizon):
    from simprocesd.model.factory_floor import Source, PartProcessor, PartHandler, Buffer, Sink, PartGenerator
    random.seed(seed * 1000 + index)
    s1 = Source('s1', PartGenerator('A', value=1 + index), cycle_time=1 + index % 3)
    s2 = Source('s2', PartGenerator('B', value=2), cycle_time=2)
    # the system's own (default) resource manager: two machines share one tool
    system.resource_manager.add_resources('tool', 1)
    m1 = PartProcessor('m1', [s1, s2], cycle_time=1.5, resources_for_processing={'tool': 1})
    m2 = PartHandler('m2', [s1, s2], cycle_time=1.5 + 0.5 * (index % 2))
    m3 = PartProcessor('m3', [s1, s2], cycle_time=1, resources_for_processing={'tool': 1})
    b = Buffer('b', [m1, m2, m3], capacity=2 + index, minimum_delay=0.5)
    Sink('k', [b], cycle_time=index % 2)
    system.simulate(0, print_summary=False)
    from simprocesd.utils import geometric_distribution_sample
    rare = geometric_distribution_sample(0.0004)          # seeded through the random module like everything else
    m3.schedule_failure(2 + rare % 5)
    system.env.schedule_event(8 + rare % 3, m3.id, m3.restore_functionality)
    m1.schedule_failure(3 + index)
    system.env.schedule_event(5 + index, m1.id, m1.restore_functionality)
    system.simulate(horizon, print_summary=False)


def summary(system):
    """simulation_data and counters with asset ids replaced by first-appearance numbers."""
    from simprocesd.model.factory_floor import Sink, Source
    ids = {}

    def norm(x):
        if x is None:
            return None
        if x not in ids:
            ids[x] = len(ids) + 1
        return ids[x]
    sd = system.simulation_data
    out = {}
    for label in ('supplied_new_part', 'received_part', 'produced_part', 'device_failure', 'level', 'resource_update'):
        for dev in sorted(sd.get(label, {}), key=str):
            rows = []
            for r in sd[label][dev]:
                r = list(r)
                if label not in ('level', 'resource_update') and len(r) > 1:
                    r[1] = norm(r[1])
                rows.append(r)
            out['%s/%s' % (label, dev)] = rows
    out['sinks'] = [s.received_parts_count for s in system.find_assets(type_=Sink)]
    out['sources'] = [s.produced_parts for s in system.find_assets(type_=Source)]
    out['net'] = system.get_net_value_of_assets()
    out['now'] = system.env.now
    out['index_marker'] = [s.cost_of_produced_parts for s in system.find_assets(type_=Source)]
    return out
