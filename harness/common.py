"""Shared infrastructure: paths, seeds, scratch space, TLC runner, evidence and verdicts.

Everything random is derived from VERIF_SEED.  Exit codes: 0 property held on everything
explored (possibly with KNOWN-FINDING lines), 1 at least one unlisted VIOLATION, 2 machinery
failure (TLC/SANY error, projection failure, vacuous specification-side coverage).
"""
import atexit
import hashlib
import json
import os
import re
import shutil
import subprocess
import sys
import tempfile
import time

VERIF = os.path.dirname(os.path.dirname(os.path.abspath(__file__)))
REPO = os.environ.get('VERIF_REPO', '/repo')
SPEC = os.path.join(VERIF, 'spec')
PY = '/venv/bin/python'
NCPU = min(16, os.cpu_count() or 1)
TLA_CP = '/opt/veriftools/tla/tla2tools.jar:/opt/veriftools/tla/CommunityModules-deps.jar'


class MachineryError(Exception):
    """Something in the verification machinery itself failed (exit 2, never a VIOLATION)."""


def seed():
    try:
        return int(os.environ.get('VERIF_SEED', '0'))
    except ValueError:
        return 0


_scratch_root = None


def scratch(sub=None):
    """A private scratch directory, removed at exit.  Nothing registered depends on its content."""
    global _scratch_root
    if _scratch_root is None:
        base = os.environ.get('TMPDIR', '/tmp')
        _scratch_root = tempfile.mkdtemp(prefix='simprocesd-verif.%d.' % os.getpid(), dir=base)
        atexit.register(shutil.rmtree, _scratch_root, True)
    if sub is None:
        return _scratch_root
    d = os.path.join(_scratch_root, sub)
    os.makedirs(d, exist_ok=True)
    return d


def repo_tree_hash():
    """SHA-256 over every *.py file of the package in the current working tree."""
    h = hashlib.sha256()
    root = os.path.join(REPO, 'simprocesd')
    for dp, dn, fn in sorted(os.walk(root)):
        dn.sort()
        if 'tests' in dp.split(os.sep):
            continue
        for f in sorted(fn):
            if f.endswith('.py'):
                p = os.path.join(dp, f)
                h.update(os.path.relpath(p, root).encode())
                with open(p, 'rb') as fh:
                    h.update(fh.read())
    return h.hexdigest()


# --------------------------------------------------------------------------------------------
# TLC
# --------------------------------------------------------------------------------------------

class TlcResult:
    def __init__(self, out, rc, wall):
        self.out = out
        self.rc = rc
        self.wall = wall
        self.generated = 0
        self.distinct = 0
        self.depth = 0
        m = None
        for m in re.finditer(r'(\d+) states generated, (\d+) distinct states found', out):
            pass
        if m:
            self.generated = int(m.group(1))
            self.distinct = int(m.group(2))
        m = re.search(r'The depth of the complete state graph search is (\d+)', out)
        if m:
            self.depth = int(m.group(1))
        self.finished = 'Model checking completed. No error has been found.' in out
        self.invariant_violated = re.findall(r'Invariant (\S+) is violated', out)
        self.property_violated = re.findall(r'(?:Action|Temporal) propert(?:y|ies) (\S+)? ?(?:is|were) violated', out)
        self.errors = [l for l in out.splitlines() if l.startswith('Error:')]
        self.printed = [l for l in out.splitlines() if l.startswith('<<"')]

    def tuples(self, tag):
        """PrintT(<<"TAG", ...>>) lines, parsed: strings and integers only."""
        res = []
        for l in self.printed:
            if not l.startswith('<<"%s"' % tag):
                continue
            res.append(parse_flat_tuple(l))
        return res

    def coverage(self):
        """-coverage output: {action name: (distinct, taken)} from '<Name line ...>: a:b' lines."""
        cov = {}
        for m in re.finditer(r'^<(\w+) line [^>]*>: (\d+):(\d+)', self.out, re.M):
            cov[m.group(1)] = (int(m.group(2)), int(m.group(3)))
        return cov


def parse_flat_tuple(line):
    """Parse a printed TLA+ tuple of strings / integers / booleans / nested tuples of those."""
    pos = 0
    s = line.strip()

    def val():
        nonlocal pos
        if s.startswith('<<', pos):
            pos += 2
            items = []
            while True:
                ws()
                if s.startswith('>>', pos):
                    pos += 2
                    return items
                items.append(val())
                ws()
                if s.startswith(',', pos):
                    pos += 1
        if s[pos] == '"':
            j = pos + 1
            buf = []
            while s[j] != '"':
                if s[j] == '\\':
                    j += 1
                    buf.append({'n': '\n', 't': '\t'}.get(s[j], s[j]))
                else:
                    buf.append(s[j])
                j += 1
            pos = j + 1
            return ''.join(buf)
        m = re.compile(r'-?\d+|TRUE|FALSE').match(s, pos)
        if not m:
            raise MachineryError('cannot parse TLC output value at %d: %r' % (pos, s[:200]))
        pos = m.end()
        t = m.group(0)
        return True if t == 'TRUE' else False if t == 'FALSE' else int(t)

    def ws():
        nonlocal pos
        while pos < len(s) and s[pos] in ' \t':
            pos += 1

    return val()


def stage_specs(dest, extra_files=None):
    """Copy every module and cfg from /verif/spec into dest, plus generated files {name: text}."""
    os.makedirs(dest, exist_ok=True)
    for f in os.listdir(SPEC):
        if f.endswith('.tla') or f.endswith('.cfg'):
            shutil.copy(os.path.join(SPEC, f), os.path.join(dest, f))
    for name, text in (extra_files or {}).items():
        with open(os.path.join(dest, name), 'w') as fh:
            fh.write(text)
    return dest


def tlc_cmd(module, cfg, workers=1, simulate=None, depth=None, coverage=False, metadir=None,
            seed_=None, dfs=False, heap='3g', extra=()):
    java = ['java', '-XX:+UseParallelGC', '-Xmx' + heap, '-Xss16m']
    if dfs:
        java.append('-Dtlc2.tool.queue.IStateQueue=StateDeque')
    cmd = java + ['-cp', TLA_CP, 'tlc2.TLC', '-workers', str(workers), '-noGenerateSpecTE',
                  '-config', cfg]
    if metadir:
        cmd += ['-metadir', metadir]
    if simulate:
        cmd += ['-simulate', simulate]
        if depth:
            cmd += ['-depth', str(depth)]
    if seed_ is not None:
        cmd += ['-seed', str(seed_)]
    if coverage:
        cmd += ['-coverage', '1']
    cmd += list(extra) + [module]
    return cmd


def run_tlc(workdir, module, cfg, workers=1, timeout=600, env=None, **kw):
    """Run TLC in workdir.  Returns TlcResult; raises MachineryError on parse/semantic errors."""
    md = tempfile.mkdtemp(prefix='md.', dir=workdir)
    cmd = tlc_cmd(module, cfg, workers=workers, metadir=md, **kw)
    e = dict(os.environ)
    e.pop('JAVA_TOOL_OPTIONS', None)
    e.setdefault('VERIF_DIFF', '0')
    if env:
        e.update(env)
    t0 = time.time()
    try:
        p = subprocess.run(cmd, cwd=workdir, env=e, stdout=subprocess.PIPE, stderr=subprocess.STDOUT,
                           timeout=timeout, text=True, errors='replace')
        out, rc = p.stdout, p.returncode
    except subprocess.TimeoutExpired as ex:
        out = (ex.stdout or b'').decode('utf-8', 'replace') if isinstance(ex.stdout, bytes) else (ex.stdout or '')
        out += '\nTIMEOUT after %ds' % timeout
        rc = -9
    finally:
        shutil.rmtree(md, True)
    r = TlcResult(out, rc, time.time() - t0)
    return r


def tlc_machinery_ok(r, what):
    """Raise MachineryError when a TLC run ended for a reason other than a clean finish."""
    bad = None
    if r.rc == -9:
        bad = 'timeout'
    elif 'Parsing or semantic analysis failed' in r.out or 'Semantic errors' in r.out:
        bad = 'parse error'
    elif 'TLC threw an unexpected exception' in r.out or 'Attempted to' in r.out \
            or 'was not in the domain' in r.out or 'java.lang.' in r.out:
        bad = 'evaluation error'
    elif r.errors and not r.invariant_violated and not r.property_violated:
        bad = 'TLC error'
    if bad:
        tail = '\n'.join(r.out.splitlines()[-60:])
        raise MachineryError('%s: %s\n%s' % (what, bad, tail))


def parallel_map(fn, items, procs=None):
    """Run fn over items in a process pool (fork), preserving order."""
    import multiprocessing as mp
    procs = procs or NCPU
    if procs <= 1 or len(items) <= 1:
        return [fn(x) for x in items]
    ctx = mp.get_context('fork')
    # an executor (not mp.Pool): when a worker dies (killed for memory, say) the map raises instead of hanging
    from concurrent.futures import ProcessPoolExecutor
    from concurrent.futures.process import BrokenProcessPool
    try:
        with ProcessPoolExecutor(min(procs, len(items)), mp_context=ctx) as pool:
            return list(pool.map(fn, items, chunksize=1))
    except BrokenProcessPool as ex:
        raise MachineryError('a worker process died (out of memory?): %s' % ex)


# --------------------------------------------------------------------------------------------
# Verdicts, known findings, evidence
# --------------------------------------------------------------------------------------------

def load_known():
    p = os.path.join(VERIF, 'known_findings.json')
    if not os.path.exists(p):
        return []
    with open(p) as fh:
        return json.load(fh).get('findings', [])


class Verdict:
    """Collects violations for one property and turns them into output lines and an exit code."""

    def __init__(self, prop):
        self.prop = prop
        self.violations = []      # dicts: key, clause, what, replay(dict)
        self.known_hits = {}
        self.notes = []

    def add(self, key, clause, what, replay):
        self.violations.append({'key': key, 'clause': clause, 'what': what, 'replay': replay})

    def finish(self, max_report=5):
        known = [k for k in load_known() if k.get('property') == self.prop and k.get('status') == 'open']
        unlisted = []
        hits = {}
        for v in self.violations:
            hit = None
            for k in known:
                if k['key'] == v['key']:
                    hit = k
                    break
            if hit:
                hits.setdefault(hit['key'], [hit, 0])[1] += 1
            else:
                unlisted.append(v)
        lines = []
        for key, (k, n) in sorted(hits.items()):
            lines.append('KNOWN-FINDING: property=%s %s [key=%s, %d occurrence(s) this run]'
                         % (self.prop, k['what'], key, n))
        seen = set()
        nrep = 0
        for v in unlisted:
            sig = (v['key'], v['clause'])
            if sig in seen or nrep >= max_report:
                continue
            seen.add(sig)
            nrep += 1
            path = write_replay(self.prop, v)
            lines.append('VIOLATION property=%s replay=%s' % (self.prop, path))
            lines.append('  clause=%s key=%s: %s' % (v['clause'], v['key'], v['what']))
        self.known_hits = {k: n for k, (_, n) in hits.items()}
        self.unlisted = unlisted
        return lines, (1 if unlisted else 0)


def write_replay(prop, v):
    d = os.path.join(VERIF, 'replays', prop)
    os.makedirs(d, exist_ok=True)
    body = json.dumps({'property': prop, 'key': v['key'], 'clause': v['clause'], 'what': v['what'],
                       'scenario': v['replay']}, sort_keys=True, indent=1, default=str)
    h = hashlib.sha256(body.encode()).hexdigest()[:12]
    path = os.path.join(d, h + '.json')
    with open(path, 'w') as fh:
        fh.write(body)
    return path


def write_evidence(prop, tier, coverage, wall, violations, assumptions, level='model_checking'):
    os.makedirs(os.path.join(VERIF, 'evidence'), exist_ok=True)
    ev = {
        'property_id': prop,
        'tier': tier,
        'seed': seed(),
        'level': level,
        'coverage': coverage,
        'assumptions': assumptions,
        'wall_s': round(wall, 2),
        'violations': violations,
        'repo_tree_sha256': repo_tree_hash(),
    }
    p = os.path.join(VERIF, 'evidence', prop + '.json')
    tmp = p + '.tmp'
    with open(tmp, 'w') as fh:
        json.dump(ev, fh, indent=1, sort_keys=True, default=str)
    os.replace(tmp, p)
    return p


def tla_str(s):
    return '"' + s.replace('\\', '\\\\').replace('"', '\\"') + '"'


def to_tla(v):
    """Render a JSON-like Python value as a TLA+ expression (dict -> record, list -> sequence)."""
    if v is True:
        return 'TRUE'
    if v is False:
        return 'FALSE'
    if isinstance(v, int):
        return str(v)
    if isinstance(v, str):
        return tla_str(v)
    if isinstance(v, (list, tuple)):
        return '<<' + ', '.join(to_tla(x) for x in v) + '>>'
    if isinstance(v, (set, frozenset)):
        return '{' + ', '.join(to_tla(x) for x in sorted(v, key=repr)) + '}'
    if isinstance(v, dict):
        if not v:
            return '<<>>'
        if all(isinstance(k, str) and re.match(r'^[A-Za-z_][A-Za-z0-9_]*$', k) for k in v):
            return '[' + ', '.join('%s |-> %s' % (k, to_tla(x)) for k, x in v.items()) + ']'
        return '(' + ' @@ '.join('(%s :> %s)' % (to_tla(k), to_tla(x)) for k, x in v.items()) + ')'
    raise MachineryError('cannot render %r as TLA+' % (v,))
