"""./check setup: parse every specification with SANY, check the tools, regenerate generated modules."""
import os
import subprocess

from . import common as C
from .kernel_params import bodies_module


def main():
    from . import floor_mc
    cfgs = floor_mc.design_family(0)[:3]
    stage = C.stage_specs(C.scratch('setup'), {'KernelBodies.tla': bodies_module(),
                                               'FloorCfgs.tla': floor_mc.render_cfgs(cfgs),
                                               'RecCfg.tla': ('---- MODULE RecCfg ----\nEXTENDS Integers\nCyc == <<4, 4, 0>>\n'
                                                              'Cap == <<-1, 1, 1>>\nH == 40\nBudget == -1\n====\n')})
    bad = 0
    mods = sorted(f for f in os.listdir(stage) if f.endswith('.tla'))
    for m in mods:
        p = subprocess.run(['java', '-cp', C.TLA_CP, 'tla2sany.SANY', m], cwd=stage, capture_output=True, text=True)
        ok = p.returncode == 0 and 'Semantic errors' not in p.stdout and 'Parse Error' not in p.stdout \
            and '*** Errors' not in p.stdout
        print('%-28s %s' % (m, 'ok' if ok else 'FAILED'))
        if not ok:
            print(p.stdout[-2000:])
            bad += 1
    p = subprocess.run([C.PY, '-c', 'import simprocesd, numpy; print(simprocesd.__file__)'],
                       capture_output=True, text=True, env=dict(os.environ, PYTHONPATH=C.REPO))
    print('simprocesd importable from', p.stdout.strip() or p.stderr.strip()[-300:])
    if p.returncode != 0:
        bad += 1
    return 2 if bad else 0
