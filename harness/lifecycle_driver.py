"""Drives the real System / asset classes along lifecycle scripts (system creation, asset creation
before the first run, between runs and from inside events, repeated simulate calls on current and
superseded systems, look-ups) and records traces for LifecycleTrace.tla.  Also runs the late-versus-
twin scenarios: the same asset created while the simulation runs and created before the start.

Observation: Asset.initialize is wrapped at run time (call count per asset); the system an asset
registered with is found through the public find_assets; events are attributed to assets by id.
"""
import json
import random as _pyrandom

_state = {'cur': None, 'installed': False}
LATE = -9

KINDS = ('source', 'handler', 'processor', 'buffer', 'gate', 'batcher', 'sink', 'maintainer', 'scheduler',
         'psensor', 'qsensor', 'cms', 'builder')
TWIN_KINDS = tuple(k for k in KINDS if k != 'builder')


def install():
    if _state['installed']:
        return
    from simprocesd.model.factory_floor.asset import Asset
    orig = Asset.initialize

    def initialize(self, env):
        cur = _state['cur']
        if cur is not None:
            cur.inits[id(self)] = cur.inits.get(id(self), 0) + 1
        return orig(self, env)
    Asset.initialize = initialize
    _state['installed'] = True


class Obj:
    def __init__(self):
        self.x = 0


def make(kind, name=None, **kw):
    """Create an asset of the given kind with the active system; returns the list of created assets."""
    from simprocesd.model.factory_floor import (Source, PartHandler, PartProcessor, Buffer, DecisionGate,
                                                 PartBatcher, Sink, Maintainer, ActionScheduler)
    from simprocesd.model.sensors import PeriodicSensor, OutputPartSensor, AttributeProbe
    from simprocesd.model.cms import Cms
    name = name or kind
    if kind == 'source':
        return [Source(name, cycle_time=kw.get('cycle', 1))]
    if kind == 'handler':
        return [PartHandler(name, cycle_time=1, upstream=kw.get('upstream'), value=5)]
    if kind == 'processor':
        return [PartProcessor(name, cycle_time=1, upstream=kw.get('upstream'), value=7)]
    if kind == 'buffer':
        return [Buffer(name, capacity=2, upstream=kw.get('upstream'), value=3)]
    if kind == 'gate':
        return [DecisionGate(name, decider_override=lambda g, p: True, upstream=kw.get('upstream'))]
    if kind == 'batcher':
        return [PartBatcher(name, output_batch_size=None, upstream=kw.get('upstream'))]
    if kind == 'sink':
        return [Sink(name, upstream=kw.get('upstream'))]
    if kind == 'maintainer':
        return [Maintainer(name, capacity=1, value=-11)]
    if kind == 'scheduler':
        return [ActionScheduler([(1, 'a'), (2, 'b')], name)]
    if kind == 'psensor':
        return [PeriodicSensor(1, [AttributeProbe('x', kw.get('target') or Obj())], name)]
    if kind == 'qsensor':
        proc = kw.get('proc')
        out = []
        if proc is None:
            proc = PartProcessor('qproc', cycle_time=1)
            out.append(proc)
        out.append(OutputPartSensor(proc, [AttributeProbe('quality', None)], sensing_interval=kw.get('n', 0), name=name))
        return out
    if kind == 'cms':
        return [Cms(None, name, value=2)]
    if kind == 'builder':
        from simprocesd.model.factory_floor.asset import Asset

        class Builder(Asset):
            """a user-defined asset that builds part of the model when it is initialised"""

            def __init__(self, name):
                self.children = []
                self._constructed = False
                super().__init__(name, value=1)
                self._constructed = True

            def initialize(self, env):
                super().initialize(env)
                child = Buffer('buffer', capacity=2, value=3)
                if self._constructed:
                    cur = _state['cur']
                    if cur is not None:
                        cur.assets.append(child)       # created by the initialisation loop of simulate()
                else:
                    self.children.append(child)        # created on the spot, inside the constructor
        b = Builder(name)
        return [b] + b.children
    raise ValueError(kind)


def _t(x):
    if x != int(x):
        raise ValueError('non-integer time %r' % (x,))
    return int(x)


class LateAct:
    def __init__(self, tr, uid, kind, sysi):
        self.tr, self.uid, self.kind, self.sysi = tr, uid, kind, sysi
        self.crash = ''
        self.__name__ = 'late_create'

    def __call__(self):
        tr = self.tr
        tr.pend = [p for p in tr.pend if p['uid'] != self.uid]
        try:
            tr.assets.extend(make(self.kind))
        except Exception as ex:
            self.crash = '%s: %s' % (type(ex).__name__, ex)


class LTracer:
    def __init__(self, tid, seed):
        import simprocesd.model.simulation as sim
        from simprocesd.model import System
        from simprocesd.model import system as sysmod
        install()
        _pyrandom.seed(seed)
        self.sim = sim
        self.System = System
        sysmod.System._instance = None       # scripts start without any system
        _state['cur'] = self
        self.tid = tid
        self.systems = []
        self.assets = []
        self.kinds = []
        self.inits = {}
        self.pend = []
        self.nuid = 0
        self.lines = []
        self.k = 0
        self.dead = False
        self.first = None
        self.log({'op': 'start'})

    # -- projection ------------------------------------------------------------------------
    def sys_of(self, a):
        found = [i + 1 for i, s in enumerate(self.systems) if a in s.find_assets(id_=a.id)]
        return found[0] if len(found) == 1 else 0

    def kind_of(self, a):
        n = type(a).__name__
        m = {'Source': 'source', 'PartHandler': 'handler', 'PartProcessor': 'processor', 'Buffer': 'buffer',
             'DecisionGate': 'gate', 'PartBatcher': 'batcher', 'Sink': 'sink', 'Maintainer': 'maintainer',
             'ActionScheduler': 'scheduler', 'PeriodicSensor': 'psensor', 'OutputPartSensor': 'qsensor', 'Cms': 'cms',
             'Builder': 'builder'}
        k = m.get(n, n)
        if k == 'processor' and a.name == 'qproc':
            k = 'qproc'
        return k

    def project(self):
        return {'nsys': len(self.systems),
                'inited': [bool(s._simulation_is_initialized) for s in self.systems],
                'now': [_t(s.env.now) for s in self.systems],
                'assets': [{'kind': self.kind_of(a), 'sys': self.sys_of(a), 'inits': self.inits.get(id(a), 0)}
                           for a in self.assets],
                'pend': [dict(p) for p in self.pend], 'nuid': self.nuid + 1,
                # C16: the system's net value against the sum over the assets it returns as registered
                'net': [int(s.get_net_value_of_assets()) for s in self.systems],
                'regsum': [int(sum(a.value for a in s.find_assets())) for s in self.systems]}

    def log(self, ev):
        self.lines.append({'tid': self.tid, 'k': self.k, 'ev': ev, 'st': self.project()})
        self.k += 1

    def _wrap_step(self, system):
        env = system.env
        orig = env.step

        def step():
            if self.first is not None:
                ev, self.first = self.first, None
                self.log(ev)
            e = env._events[0] if env._events else None
            info = {'op': 'step', 'kind': 'other', 'asset': 0, 'uid': 0, 'crash': ''}
            if e is not None and e.asset_id == LATE:
                info.update(kind='late', uid=e.action.uid)
            elif e is not None and not e.cancelled:
                for i, a in enumerate(self.assets):
                    if a.id == e.asset_id:
                        info['asset'] = i + 1
            try:
                orig()
            finally:
                if info['kind'] == 'late':
                    info['crash'] = e.action.crash
                    if e.action.crash:
                        self.dead = True
                self.log(info)
        env.step = step

    # -- operations ------------------------------------------------------------------------
    def apply(self, op):
        o = op['op']
        if o == 'newsys':
            s = self.System()
            self.systems.append(s)
            self._wrap_step(s)
            self.log({'op': 'newsys'})
        elif o == 'create':
            out = 'ok'
            try:
                self.assets.extend(make(op['kind']))
            except RuntimeError:
                out = 'error'
            except Exception as ex:
                out = 'crash:%s' % type(ex).__name__
                self.dead = True
            self.log({'op': 'create', 'kind': op['kind'], 'out': out})
        elif o == 'late':
            s = self.systems[-1]
            self.nuid += 1
            a = LateAct(self, self.nuid, op['kind'], len(self.systems))
            t = s.env.now + op['dt']
            s.env.schedule_event(t, LATE, a, self.sim.EventType.OTHER_LOW_PRIORITY)
            self.pend.append({'sys': len(self.systems), 'time': _t(t), 'kind': op['kind'], 'uid': self.nuid})
            self.log({'op': 'late', 'kind': op['kind'], 'dt': op['dt']})
        elif o == 'sim':
            s = self.systems[op['sys'] - 1]
            self.first = {'op': 'sim', 'sys': op['sys'], 'd': op['d'], 'out': 'ok'}
            try:
                s.simulate(op['d'], print_summary=False)
            except RuntimeError:
                if self.first is not None:
                    self.first = None
                    self.log({'op': 'sim', 'sys': op['sys'], 'd': op['d'], 'out': 'error'})
                    return
                raise
            if self.first is not None:      # no step happened (cannot happen: TERMINATE is always dispatched)
                ev, self.first = self.first, None
                self.log(ev)
            self.log({'op': 'simend'})
        elif o == 'find':
            s = self.systems[op['sys'] - 1]
            f = op['f']
            import simprocesd.model.factory_floor as ff
            import simprocesd.model.sensors as sn
            import simprocesd.model.cms as cm
            from simprocesd.model.factory_floor.asset import Asset

            def cls(n):
                if not n:
                    return None
                if n == 'Asset':
                    return Asset
                for m in (ff, sn, cm):
                    if hasattr(m, n):
                        return getattr(m, n)
                raise ValueError(n)
            kw = {}
            if f['name']:
                kw['name'] = '' if f['name'] == '<empty>' else f['name']       # the empty string is a given filter too
            if f['id'] == -1:
                kw['id_'] = 0                                                   # so is the id 0
            elif f['id']:
                kw['id_'] = self.assets[f['id'] - 1].id if f['id'] <= len(self.assets) else 10 ** 9
            if f['type']:
                kw['type_'] = cls(f['type'])
            if f['subtype']:
                kw['subtype'] = cls(f['subtype'])
            res = s.find_assets(**kw)
            idx = []
            for r in res:
                hit = [i + 1 for i, a in enumerate(self.assets) if a is r]
                idx.append(hit[0] if hit else 0)
            self.log({'op': 'find', 'sys': op['sys'], 'f': f, 'result': idx})
        else:
            raise ValueError(o)


def run_sequence(tid, ops, seed=0):
    if ops and ops[0].get('op') == 'twin':
        return run_twin(tid, ops[0]), 0, None
    tr = LTracer(tid, seed)
    err = None
    try:
        for op in ops:
            if tr.dead:
                break
            tr.apply(op)
    except Exception as ex:
        err = '%s: %s' % (type(ex).__name__, ex)
    _state['cur'] = None
    return tr.lines, 0, err


FILTER_NAMES = ['', 'nosuch', '<empty>'] + list(KINDS)
CLASSES = ['', 'Source', 'PartHandler', 'PartProcessor', 'Buffer', 'DecisionGate', 'PartBatcher', 'Sink',
           'Maintainer', 'ActionScheduler', 'PeriodicSensor', 'OutputPartSensor', 'Cms']
SUPERS = ['', 'Asset', 'PartFlowController', 'PartHandler', 'Maintainable', 'Sensor', 'PartProcessor', 'Sink']
SAFE_LATE = ('handler', 'processor', 'buffer', 'gate', 'batcher', 'sink', 'cms')


def run_random(tid, seed, n):
    rng = _pyrandom.Random(seed)
    if seed % 3 == 0:
        kinds = TWIN_KINDS
        op = {'op': 'twin', 'kind': kinds[(seed // 3) % len(kinds)], 't': rng.choice([1, 2, 3]),
              'h': rng.choice([6, 9]), 'variant': rng.randint(0, 2)}
        return run_twin(tid, op), None, [op]
    ops = [{'op': 'newsys'}]
    for _ in range(n):
        x = rng.random()
        if x < 0.08:
            ops.append({'op': 'newsys'})
        elif x < 0.33:
            ops.append({'op': 'create', 'kind': rng.choice(KINDS)})
        elif x < 0.48:
            # half of the scripts also create the kinds that are known not to survive late creation
            pool = KINDS if seed % 2 else SAFE_LATE
            ops.append({'op': 'late', 'kind': rng.choice(pool), 'dt': rng.choice([0, 1, 2, 3])})
        elif x < 0.72:
            ops.append({'op': 'sim', 'sys': -rng.choice([1, 1, 1, 2]), 'd': rng.choice([0, 1, 2, 4])})
        else:
            ops.append({'op': 'find', 'sys': -1,
                        'f': {'name': rng.choice(FILTER_NAMES) if rng.random() < 0.4 else '',
                              'id': rng.choice([0, 0, 1, 2, 3, 50, -1]),
                              'type': rng.choice(CLASSES) if rng.random() < 0.4 else '',
                              'subtype': rng.choice(SUPERS) if rng.random() < 0.5 else ''}})
    # resolve relative system indices (-1 latest, -2 the one before)
    nsys = 0
    done = []
    for op in ops:
        if op['op'] == 'newsys':
            nsys += 1
        if 'sys' in op and op['sys'] < 0:
            op = dict(op, sys=max(1, nsys + 1 + op['sys']))
        done.append(op)
    lines, _, err = run_sequence(tid, done, seed)
    return lines, err, done


# ------------------------------------------------------------------------------------------------
# late versus twin
# ------------------------------------------------------------------------------------------------

def _summary(system, extra, shift=0, since=0):
    """Observable behaviour from time `since` on, times shifted by -shift, ids left out."""
    sd = system.simulation_data
    out = {}
    for label in sorted(sd):
        for dev in sorted(sd[label], key=str):
            rows = []
            for r in sd[label][dev]:
                t = r[0] if isinstance(r, tuple) else None
                if t is None or t < since:
                    continue
                row = [t - shift]
                if label in ('received_part', 'produced_part'):
                    row += [r[2], r[3]]
                elif label in ('level', 'schedule_update'):
                    row += [r[1]]
                elif label in ('enter_queue', 'start_work_order', 'finish_work_order'):
                    row += [r[1], r[2]]
                rows.append(row)
            if rows:
                out['%s/%s' % (label, dev)] = rows
    out['extra'] = extra
    return out


def _scenario(kind, late, t, H, variant):
    """Build and run one scenario; returns (summary dict, error string)."""
    from simprocesd.model import System
    from simprocesd.model import system as sysmod
    from simprocesd.model.factory_floor import Source, PartHandler, PartProcessor, Sink, PartGenerator
    import simprocesd.model.simulation as sim
    sysmod.System._instance = None
    _pyrandom.seed(12345 + variant)
    system = System()
    env = system.env
    extra = {}
    err = {'e': ''}
    shift = 0
    since = 0
    flow = ('handler', 'processor', 'buffer', 'gate', 'batcher')

    def at(time, fn):
        def act():
            try:
                fn()
            except Exception as ex:
                err['e'] = '%s: %s' % (type(ex).__name__, ex)
        act.__name__ = 'scenario_action'
        env.schedule_event(time, LATE, act, sim.EventType.OTHER_LOW_PRIORITY)

    src_cycle = 1 + variant % 2
    if kind in flow:
        src = Source('src', PartGenerator('P', value=1), cycle_time=src_cycle)
        sink = Sink('sink')
        if late:
            def go():
                x = make(kind, 'X', upstream=[src])[0]
                sink.set_upstream([x])
            at(t, go)
        else:
            x = make(kind, 'X')[0]

            def go():
                x.set_upstream([src])
                sink.set_upstream([x])
            at(t, go)
        system.simulate(H, print_summary=False)
        extra['sink'] = sink.received_parts_count
        extra['src'] = src.produced_parts
    elif kind == 'sink':
        src = Source('src', PartGenerator('P', value=1), cycle_time=src_cycle)
        h = PartHandler('h', upstream=[src], cycle_time=1)
        box = {}
        if late:
            at(t, lambda: box.update(s=Sink('X', upstream=[h], cycle_time=variant % 2)))
        else:
            box['s'] = Sink('X', cycle_time=variant % 2)
            at(t, lambda: box['s'].set_upstream([h]))
        system.simulate(H, print_summary=False)
        extra['sink'] = box['s'].received_parts_count if 's' in box else -1
        extra['value'] = box['s'].value if 's' in box else -1
    elif kind == 'source':
        h = PartHandler('h', cycle_time=1)
        sink = Sink('sink', upstream=[h])
        box = {}
        if late:
            def go():
                box['s'] = Source('X', PartGenerator('P', value=1), cycle_time=src_cycle, starting_parts=3 + variant)
                h.set_upstream([box['s']])
            at(t, go)
            system.simulate(H, print_summary=False)
            shift, since = t, t
        else:
            box['s'] = Source('X', PartGenerator('P', value=1), cycle_time=src_cycle, starting_parts=3 + variant)
            h.set_upstream([box['s']])
            system.simulate(H - t, print_summary=False)
        extra['sink'] = sink.received_parts_count
        extra['supplied'] = box['s'].produced_parts if 's' in box else -1
    elif kind == 'maintainer':
        class M(PartProcessor):
            def get_work_order_duration(self, tag):
                return 2

            def get_work_order_capacity(self, tag):
                return 1

            def get_work_order_cost(self, tag):
                return 3
        src = Source('src', PartGenerator('P', value=1), cycle_time=src_cycle)
        m = M('m', upstream=[src], cycle_time=1)
        sink = Sink('sink', upstream=[m])
        box = {}
        if late:
            def go():
                box['mt'] = make('maintainer', 'X')[0]
                extra['ret'] = [bool(box['mt'].create_work_order(m, 'a')), bool(box['mt'].create_work_order(m, 'a')),
                                bool(box['mt'].create_work_order(m, 'b'))]
            at(t, go)
        else:
            box['mt'] = make('maintainer', 'X')[0]

            def go():
                extra['ret'] = [bool(box['mt'].create_work_order(m, 'a')), bool(box['mt'].create_work_order(m, 'a')),
                                bool(box['mt'].create_work_order(m, 'b'))]
            at(t, go)
        system.simulate(H, print_summary=False)
        extra['sink'] = sink.received_parts_count
        extra['value'] = box['mt'].value if 'mt' in box else -1
    elif kind == 'scheduler':
        from simprocesd.model.factory_floor import ActionScheduler
        calls = []
        o = Obj()
        tt = [(1, 'a'), (2, 'b')] if variant % 2 == 0 else [(2, 'a'), (1, 'b'), (1, 'c')]

        def register(s):
            s.register_object(o, lambda sc, ob, time, st: calls.append([time - shift_box[0], st]))

        sbox = {}
        states = []

        def build():
            s = ActionScheduler(list(tt), 'X', is_cyclical=(variant != 2))
            sbox['s'] = s
            register(s)
            states.append([0, str(s.current_state)])
            return s

        def probes(t0):
            # the state the scheduler reports half a time unit after each whole time since its start-up
            for k in range(H - t):
                at(t0 + k + 0.5, lambda k=k: states.append([k + 0.5, str(sbox['s'].current_state)]))
        shift_box = [0]
        if late:
            shift_box[0] = t
            at(t, build)
            probes(t)
            system.simulate(H, print_summary=False)
            shift, since = t, t
        else:
            # a late-created scheduler starts up before anything can be registered with it; the twin
            # therefore gets its object right after its own start-up (an event at time 0)
            s0 = ActionScheduler(list(tt), 'X', is_cyclical=(variant != 2))
            sbox['s'] = s0

            def reg0():
                register(s0)
                states.append([0, str(s0.current_state)])
            at(0, reg0)
            probes(0)
            system.simulate(H - t, print_summary=False)
        extra['calls'] = calls
        extra['states'] = states
    elif kind == 'psensor':
        from simprocesd.model.sensors import PeriodicSensor, AttributeProbe
        o = Obj()
        box = {}
        times = []

        def bump():
            o.x += 1

        def build():
            s = PeriodicSensor(1 + variant % 2, [AttributeProbe('x', o)], 'X', data_capacity=3)
            s.add_on_sense_callback(lambda sn, time, data: times.append([time - shift_box[0], list(data)]))
            box['s'] = s
        shift_box = [0]
        if late:
            shift_box[0] = t
            for k in range(H):
                at(t + k + 0.5, bump)
            at(t, build)
            system.simulate(H, print_summary=False)
            shift, since = t, t
        else:
            for k in range(H):
                at(k + 0.5, bump)
            build()
            system.simulate(H - t, print_summary=False)
        extra['calls'] = times
        if 's' in box:
            probes = box['s'].probes
            extra['series'] = list(box['s'].data[probes[0]])
            extra['time'] = [v - shift for v in box['s'].data.get('time', [])]
    elif kind == 'qsensor':
        from simprocesd.model.sensors import OutputPartSensor, AttributeProbe
        src = Source('src', PartGenerator('P', value=1, quality=2), cycle_time=src_cycle)
        m = PartProcessor('m', cycle_time=1)
        sink = Sink('sink', upstream=[m])
        times = []
        box = {}

        def build():
            s = OutputPartSensor(m, [AttributeProbe('quality', None)], sensing_interval=variant, name='X')
            s.add_on_sense_callback(lambda sn, time, data: times.append([time, list(data)]))
            box['s'] = s
        if late:
            def go():
                build()
                m.set_upstream([src])
            at(t, go)
        else:
            build()
            at(t, lambda: m.set_upstream([src]))
        system.simulate(H, print_summary=False)
        extra['calls'] = times
        extra['sink'] = sink.received_parts_count
    elif kind == 'cms':
        from simprocesd.model.sensors import PeriodicSensor, AttributeProbe
        from simprocesd.model.cms import Cms
        o = Obj()
        ps = PeriodicSensor(1, [AttributeProbe('x', o)], 'ps')
        seen = []

        class MyCms(Cms):
            def on_sense(self, sensor, time, data):
                seen.append([time, list(data)])
        box = {}
        if late:
            def go():
                box['c'] = MyCms(None, 'X')
                box['c'].add_sensor(ps)
                box['c'].add_sensor(ps)
            at(t, go)
        else:
            box['c'] = MyCms(None, 'X')

            def go():
                box['c'].add_sensor(ps)
                box['c'].add_sensor(ps)
            at(t, go)
        system.simulate(H, print_summary=False)
        extra['seen'] = seen
    else:
        raise ValueError(kind)
    return _summary(system, extra, shift, since), err['e']


def run_twin(tid, op):
    """One trace of two lines: start, and the comparison of the late and the twin scenario."""
    res = {}
    for mode, late in (('late', True), ('twin', False)):
        try:
            s, e = _scenario(op['kind'], late, op['t'], op['h'], op.get('variant', 0))
        except Exception as ex:
            s, e = {}, '%s: %s' % (type(ex).__name__, ex)
        res[mode] = {'sum': json.dumps(s, sort_keys=True, default=str), 'error': e}
    st = {'nsys': 0, 'inited': [], 'now': [], 'assets': [], 'pend': [], 'nuid': 1, 'net': [], 'regsum': []}
    return [{'tid': tid, 'k': 0, 'ev': {'op': 'start'}, 'st': st},
            {'tid': tid, 'k': 1, 'ev': {'op': 'twin', 'kind': op['kind'], 't': op['t'], 'h': op['h'],
                                        'late': res['late'], 'twin': res['twin']}, 'st': st}]
