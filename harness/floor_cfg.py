"""Scenario families for the factory floor.  One deterministic enumerator produces configurations as
JSON; the same JSON builds the real model (floor_build.py) and is rendered into TLA+ for the closed
specification (FloorMC).  Times are ticks of 0.25 time units; -1 is "infinite / none".
"""
import itertools
import random

DEV_DEFAULTS = dict(ups=[], cyc=0, cap=-1, delay=0, budget=-1, pval=0, bsrc=-1, bnest=0, bmix=False, bsize=0, req={}, pred='all',
                    vadd=0, qset=0, qinc=False, cycmod=0, offmod=0, offmod2=0, foff=0, late=False,
                    wodur=0, wocap=0, wocost=0, wear=0, thr=0, sint=-1, pint=0, scap=-1, gin=0, gout=0, vups=[], members=[], inputs=[], outputs=[])


def norm(cfg):
    """Fill in every default so that the TLA+ side sees complete records."""
    out = dict(cfg)
    devs = []
    for i, d in enumerate(cfg['devs']):
        nd = dict(DEV_DEFAULTS)
        nd.update(d)
        nd['id'] = i + 1
        nd['ups'] = list(nd['ups'])
        nd['req'] = dict(nd['req'] or {})
        nd['late'] = any(u > nd['id'] for u in nd['ups'])
        for f in ('vups', 'members', 'inputs', 'outputs'):
            nd[f] = list(nd[f])
        devs.append(nd)
    for nd in devs:          # the group input pseudo-device notifies the upstreams of all paths of its group
        if nd['kind'] == 'ginput':
            nd['vups'] = [u for x in devs if x['kind'] == 'gpath' and x['gin'] == nd['id'] for u in x['ups']]
    out['devs'] = devs
    out['pools'] = dict(cfg.get('pools') or {})
    sc = []
    for c in cfg.get('script') or []:
        nc = dict(t=0, prio=20, call='noise', dev=0, arg=0, res='', between=False, ups=[])
        nc.update(c)
        nc['ups'] = list(nc['ups'])
        sc.append(nc)
    sc.sort(key=lambda c: (c['t'], -c['prio']))
    out['script'] = sc
    out.setdefault('horizon', 24)
    out['splits'] = sorted(set(list(cfg.get('splits') or []) + [c['t'] for c in sc if c['between']]))
    out['splits'] = [t for t in out['splits'] if 0 < t < out['horizon']]
    for c in sc:
        if c['between'] and c['t'] not in out['splits']:
            c['between'] = False
    out['maintcap'] = cfg.get('maintcap', -1)
    out['scheds'] = [dict(tt=[[int(d), str(st)] for d, st in sc['tt']], cyc=bool(sc.get('cyc', True)),
                          targets=list(sc['targets'])) for sc in cfg.get('scheds') or []]
    out['serial'] = is_serial(out)
    out['trace'] = bool(cfg.get('trace', False))
    return out


def is_serial(cfg):
    """source -> stations -> sink with constant parameters and nothing scripted: the C04 reference applies."""
    devs = cfg['devs']
    if len(devs) < 2 or cfg.get('script') or cfg.get('pools') or cfg.get('scheds'):
        return False
    if devs[0]['kind'] != 'source' or devs[-1]['kind'] != 'sink' or devs[0]['bsrc'] >= 0:
        return False
    for i, d in enumerate(devs):
        if i > 0 and d['ups'] != [i]:
            return False
        if 0 < i < len(devs) - 1 and d['kind'] not in ('handler', 'processor', 'buffer'):
            return False
        if d['cycmod'] or d['offmod'] or d['offmod2'] or d['foff'] or d['req'] or d['thr']:
            return False
    return True


def src(cyc=2, budget=-1, pval=1, bsrc=-1):
    return dict(kind='source', cyc=cyc, budget=budget, pval=pval, bsrc=bsrc)


def dev(kind, ups, **kw):
    d = dict(kind=kind, ups=list(ups))
    d.update(kw)
    return d


def serial(kinds, params, source, sink_cyc, horizon, script=(), pools=None):
    """source -> kinds[0] -> ... -> sink"""
    devs = [source]
    for i, (k, p) in enumerate(zip(kinds, params)):
        devs.append(dev(k, [i + 1], **p))
    devs.append(dev('sink', [len(devs)], cyc=sink_cyc, vadd=(1 if sink_cyc == 3 else 0)))
    return norm(dict(devs=devs, script=list(script), horizon=horizon, pools=pools or {}))


STATION_PARAMS = {
    'handler': [dict(cyc=c) for c in (0, 1, 2, 3, 5, 7, 11)],
    'processor': [dict(cyc=c) for c in (0, 1, 2, 3, 5, 7, 11)],
    'buffer': [dict(cap=c, delay=dl) for c in (1, 2, 3, -1) for dl in (0, 1, 2, 3, 5, 10)],
}


def is_well_posed(cfg):
    """A zero-cycle source with an infinite budget in front of an unbounded buffer produces infinitely
    many parts in one instant (ill-posed, excluded)."""
    for d in cfg['devs']:
        if d['kind'] == 'source' and d['cyc'] == 0 and d['budget'] == -1:
            # follow pass-through / unbounded zero-time path
            seen = set()
            front = [x['id'] for x in cfg['devs'] if d['id'] in x['ups']]
            while front:
                x = front.pop()
                if x in seen:
                    continue
                seen.add(x)
                dx = cfg['devs'][x - 1]
                if dx['kind'] == 'buffer' and dx['cap'] == -1:
                    return False
                if dx['kind'] == 'sink' and dx['cyc'] == 0:
                    return False        # a sink that takes parts in no time at the end of a zero-time path
                if dx['kind'] in ('gate', 'junction', 'gpath'):
                    front += [y['id'] for y in cfg['devs'] if x in y['ups']]
                elif dx['kind'] == 'batcher':
                    front += [y['id'] for y in cfg['devs'] if x in y['ups']]
                elif dx['kind'] in ('handler', 'processor') and dx['cyc'] == 0:
                    front += [y['id'] for y in cfg['devs'] if x in y['ups']]
                elif dx['kind'] == 'buffer' and dx['delay'] == 0:
                    front += [y['id'] for y in cfg['devs'] if x in y['ups']]
    return True


def gen_serial(rng, n_max=3, count=200, horizon=(8, 16, 24), budgets=(1, 2, 3, 5, -1)):
    out = []
    tries = 0
    while len(out) < count and tries < count * 20:
        tries += 1
        n = rng.randint(0, n_max)
        kinds = [rng.choice(['handler', 'processor', 'buffer']) for _ in range(n)]
        params = [rng.choice(STATION_PARAMS[k]) for k in kinds]
        if n >= 2 and rng.random() < 0.35:
            # a buffer with a minimum delay in front of a slower station (parts arrive while the head is due but blocked)
            i = rng.randrange(n - 1)
            kinds[i], kinds[i + 1] = 'buffer', rng.choice(['handler', 'processor'])
            dl = rng.choice([1, 2, 5, 8, 10])
            params[i] = dict(cap=rng.choice([1, 2, 3, -1]), delay=dl)
            params[i + 1] = dict(cyc=dl + rng.choice([-1, 1, 1, 2, 3]))
        cfg = serial(kinds, params, src(rng.choice([0, 1, 2, 4]), rng.choice(budgets), pval=rng.choice([0, 1, 3, -2])),
                     rng.choice([0, 1, 3]), rng.choice(horizon))
        if is_well_posed(cfg):
            cfg['family'] = 'serial'
            out.append(cfg)
    return out


FAULT_CALLS = ['shutdown', 'restore', 'fail', 'block', 'unblock']


def add_faults(rng, cfg, ncalls, horizon=None):
    """A script of calls placed on the time grid; targets are chosen among fitting devices."""
    cfg = dict(cfg)
    devs = cfg['devs']
    procs = [d['id'] for d in devs if d['kind'] == 'processor']
    holders = [d['id'] for d in devs if d['kind'] in ('handler', 'processor', 'buffer', 'batcher', 'gate')]
    blockable = holders + [d['id'] for d in devs if d['kind'] == 'sink']
    sources = [d['id'] for d in devs if d['kind'] == 'source' and d['budget'] != -1]
    H = horizon or cfg['horizon']
    script = list(cfg.get('script') or [])
    for _ in range(ncalls):
        t = rng.randint(0, max(1, H - 2))
        prio = rng.choice([20, 20, 115, 65, 75])
        x = rng.random()
        if procs and x < 0.55:
            call = rng.choice(['shutdown', 'restore', 'fail', 'fail', 'shutdown', 'restore'])
            c = dict(t=t, prio=prio, call=call, dev=rng.choice(procs), arg=rng.choice([0, 0, 1, 2, 3]))
        elif x < 0.75 and holders:
            c = dict(t=t, prio=prio, call=rng.choice(['block', 'unblock']), dev=rng.choice(blockable))
        elif x < 0.85 and sources:
            c = dict(t=t, prio=prio, call='adjust', dev=rng.choice(sources), arg=rng.choice([-2, -1, 1, 2, 3]))
        elif cfg.get('pools') and x < 0.95:
            c = dict(t=t, prio=prio, call='addres', res=rng.choice(sorted(cfg['pools'])), arg=rng.choice([-2, -1, 1, 2]))
        else:
            plain = [d['id'] for d in devs if d['kind'] == 'source' and d['bsrc'] < 0]
            if plain and rng.random() < 0.5:
                c = dict(t=t, prio=prio, call='partnoise', dev=rng.choice(plain), arg=rng.choice([1, 2, -1]))
            else:
                c = dict(t=t, prio=prio, call='noise', dev=rng.choice(holders or [1]), arg=rng.choice([1, 2]))
        script.append(c)
    # every shutdown / failure is followed (some time later) by a restore, so that lines do not just die
    for c in list(script):
        if c['call'] in ('shutdown', 'fail') and rng.random() < 0.8:
            script.append(dict(t=min(H, c['t'] + c.get('arg', 0) + rng.choice([1, 2, 3, 5])), prio=rng.choice([20, 90]),
                               call='restore', dev=c['dev']))
    cfg['script'] = script
    out = norm(cfg)
    out['family'] = cfg.get('family', '') + '+faults'
    return out


def gen_parallel(rng, count=100):
    """fan-out / fan-in: source(s) -> k parallel stations -> (buffer)? -> sink"""
    out = []
    while len(out) < count:
        nsrc = rng.choice([1, 1, 2])
        devs = [src(rng.choice([1, 2, 2, 4]), rng.choice([2, 3, 5, -1]), pval=rng.choice([0, 1, 1, -1])) for _ in range(nsrc)]
        srcs = list(range(1, nsrc + 1))
        first = [srcs]
        if rng.random() < 0.4:
            devs.append(dev('buffer', srcs, cap=rng.choice([1, 2, -1]), delay=rng.choice([0, 1])))
            first = [[len(devs)]]
        k = rng.choice([2, 2, 3])
        par = []
        for _ in range(k):
            kind = rng.choice(['handler', 'processor', 'processor'])
            devs.append(dev(kind, first[0], cyc=rng.choice([1, 2, 2, 3, 4])))
            par.append(len(devs))
        if rng.random() < 0.5:
            devs.append(dev('buffer', par, cap=rng.choice([1, 2, 3]), delay=rng.choice([0, 0, 2])))
            par = [len(devs)]
        devs.append(dev('sink', par, cyc=rng.choice([0, 1, 2])))
        cfg = norm(dict(devs=devs, horizon=rng.choice([12, 16, 24])))
        if is_well_posed(cfg):
            cfg['family'] = 'parallel'
            out.append(cfg)
    return out


def gen_resources(rng, count=100):
    """2-3 processors competing for pools {A, B} (serial and parallel placements)"""
    out = []
    while len(out) < count:
        pools = {'A': rng.choice([0, 1, 1, 2])}
        if rng.random() < 0.4:
            pools['B'] = rng.choice([1, 2])
        devs = [src(rng.choice([1, 2, 3]), rng.choice([3, 5, -1]), pval=1)]
        shape = rng.choice(['par', 'ser', 'two-lines', 'junction', 'zero-series'])

        def req():
            r = {'A': rng.choice([1, 1, 2])}
            if 'B' in pools and rng.random() < 0.5:
                r['B'] = 1
            if rng.random() < 0.15:
                r = {}
            return r
        if shape == 'junction':      # a pass-through device in front of machines that need the same pool
            devs[0] = src(rng.choice([2, 3, 4]), rng.choice([3, 5, -1]), pval=1)
            devs.append(dev(rng.choice(['junction', 'gate']), [1]))
            ps = []
            for _ in range(rng.choice([2, 3])):
                devs.append(dev('processor', [2], cyc=rng.choice([1, 2, 5]), req={'A': 1}))
                ps.append(len(devs))
            devs.append(dev('sink', ps, cyc=0))
            pools['A'] = rng.choice([2, 2, 3])
        elif shape == 'zero-series':  # zero-cycle machines in series sharing one unit: several finishes in one instant
            devs[0] = src(rng.choice([0, 1, 2]), rng.choice([2, 3, 4]), pval=1)
            devs.append(dev('processor', [1], cyc=0, req={'A': 1}))
            devs.append(dev('processor', [2], cyc=rng.choice([0, 0, 1]), req={'A': 1}))
            devs.append(dev('sink', [3], cyc=0))
            pools['A'] = 1
        elif shape == 'par':
            ps = []
            for _ in range(rng.choice([2, 3])):
                devs.append(dev('processor', [1], cyc=rng.choice([1, 2, 3, 4]), req=req()))
                ps.append(len(devs))
            devs.append(dev('sink', ps, cyc=rng.choice([0, 1])))
        elif shape == 'ser':
            devs.append(dev('processor', [1], cyc=rng.choice([1, 2, 3]), req=req()))
            if rng.random() < 0.5:
                devs.append(dev('buffer', [2], cap=rng.choice([1, 2]), delay=0))
            devs.append(dev('processor', [len(devs)], cyc=rng.choice([1, 2, 3]), req=req()))
            devs.append(dev('sink', [len(devs)], cyc=rng.choice([0, 1, 2])))
        else:
            devs.append(src(rng.choice([1, 2, 3]), rng.choice([3, 5, -1]), pval=1))
            devs.append(dev('processor', [1], cyc=rng.choice([1, 2, 3]), req=req()))
            devs.append(dev('processor', [2], cyc=rng.choice([1, 2, 3]), req=req()))
            devs.append(dev('sink', [3], cyc=0))
            devs.append(dev('sink', [4], cyc=0))
        cfg = norm(dict(devs=devs, pools=pools, horizon=rng.choice([12, 16, 24])))
        cfg['family'] = 'resources'
        out.append(cfg)
    return out


def gen_targeted(rng, count=60):
    """Situations that random placement rarely produces: a failure while the machine is shut down for
    maintenance, two shutdowns within one part, several machines waiting for the same pool when it is
    released or enlarged, zero-length cycles with one-shot offsets, calls made between two runs."""
    out = []
    for i in range(count):
        kind = i % 8
        if i % 16 == 9:
            kind = 5 if i % 32 == 9 else 8
        if i % 16 == 8:
            kind = 9
        H = rng.choice([24, 32])
        if kind == 0:        # failure during a maintenance shutdown, part in process or not
            c = rng.choice([4, 6, 8, 10])
            t1 = rng.choice([1, 2, 3, 5])
            devs = [src(rng.choice([1, 2]), rng.choice([3, 5, -1]), pval=1), dev('processor', [1], cyc=c, req=rng.choice([{}, {'A': 1}])),
                    dev('sink', [2], cyc=0)]
            script = [dict(t=t1, call='shutdown', dev=2), dict(t=t1 + rng.choice([0, 1, 2]), call='fail', dev=2, arg=rng.choice([0, 0, 1])),
                      dict(t=t1 + rng.choice([3, 4, 6]), call='restore', dev=2, prio=rng.choice([20, 90]))]
            if rng.random() < 0.4:
                # stopped in the instant between the end of a cycle and the release of the resources, failing while stopped
                t1 = devs[0]['cyc'] * rng.choice([1, 2]) + c
                script = [dict(t=t1, prio=rng.choice([75, 65]), call='shutdown', dev=2), dict(t=t1 + 1, call='fail', dev=2, arg=rng.choice([0, 1])),
                          dict(t=t1 + rng.choice([3, 4]), call='restore', dev=2, prio=90)]
                devs[1]['req'] = {'A': 1}
                devs += [src(rng.choice([3, 5]), 2, pval=1), dev('processor', [4], cyc=2, req={'A': 1}), dev('sink', [5], cyc=0)]
            cfg = dict(devs=devs, script=script, horizon=H, pools={'A': 1})
            fam = 'fail-in-maintenance'
        elif kind == 1 and i % 32 == 1:   # two machines whose outages overlap, the one shut down later is restored first
            devs = [src(1, rng.choice([3, 5, -1]), pval=1), dev('processor', [1], cyc=rng.choice([8, 10])),
                    dev('buffer', [2], cap=2, delay=0), dev('processor', [3], cyc=rng.choice([8, 10, 12])), dev('sink', [4], cyc=0)]
            t1 = rng.choice([13, 14, 15])
            script = [dict(t=t1, call='shutdown', dev=2), dict(t=t1 + 3, call='shutdown', dev=4),
                      dict(t=t1 + 5, call='restore', dev=4), dict(t=t1 + 7, call='restore', dev=2)]
            if rng.random() < 0.5:
                script = [dict(t=t1, call='shutdown', dev=4), dict(t=t1 + 3, call='shutdown', dev=2),
                          dict(t=t1 + 5, call='restore', dev=2), dict(t=t1 + 7, call='restore', dev=4)]
            cfg = dict(devs=devs, script=script, horizon=H + 24)
            fam = 'overlapping-outages'
        elif kind == 1:      # two shutdown / restore pairs within one part
            c = rng.choice([8, 10, 12])
            a = rng.choice([1, 2, 3])
            devs = [src(rng.choice([1, 2]), rng.choice([2, 3, -1]), pval=1), dev('processor', [1], cyc=c), dev('sink', [2], cyc=0)]
            t1 = rng.choice([2, 3, 4])
            script = [dict(t=t1, call='shutdown', dev=2), dict(t=t1 + a, call='restore', dev=2),
                      dict(t=t1 + a + 2, call='shutdown', dev=2), dict(t=t1 + a + 2 + rng.choice([1, 2, 3]), call='restore', dev=2)]
            if rng.random() < 0.5:      # a failure scheduled for later is paused and resumed together with the cycle timer
                script.insert(0, dict(t=1, prio=115, call='fail', dev=2, arg=rng.choice([6, 8, 12, 16])))
                script.append(dict(t=rng.choice([22, 26]), call='restore', dev=2, prio=90))
            cfg = dict(devs=devs, script=script, horizon=H)
            fam = 'double-shutdown'
        elif kind == 2:      # k lines competing for one pool that is released / enlarged
            k = rng.choice([2, 3, 3])
            devs = [src(rng.choice([1, 2]), rng.choice([1, 2, 3]), pval=1) for _ in range(k)]
            for j in range(k):
                devs.append(dev('processor', [j + 1], cyc=rng.choice([2, 3, 4]), req={'A': 1}))
            for j in range(k):
                devs.append(dev('sink', [k + j + 1], cyc=0))
            cap = rng.choice([0, 1, 1])
            script = []
            if cap == 0 or rng.random() < 0.5:
                script.append(dict(t=rng.choice([1, 2, 4]), call='addres', res='A', arg=rng.choice([1, 2, 2, 3])))
            if rng.random() < 0.3:
                script.append(dict(t=rng.choice([6, 9]), call='addres', res='A', arg=-1))
            if i % 16 == 2:     # the capacity drops to exactly zero under a holder and rises again
                cap = rng.choice([1, 2])
                for d in devs:
                    if d['kind'] == 'processor':
                        d['cyc'] = rng.choice([4, 5, 6])
                t = rng.choice([2, 3, 4])
                script = [dict(t=t, call='addres', res='A', arg=-cap), dict(t=t + rng.choice([1, 2]), call='addres', res='A', arg=rng.choice([1, 2]))]
            cfg = dict(devs=devs, script=script, horizon=H, pools={'A': cap})
            fam = 'contention'
        elif kind == 3:      # zero-length cycles and one-shot offsets from receive and finish callbacks
            devs = [src(rng.choice([1, 2, 3]), rng.choice([5, 8, -1]), pval=1),
                    dev('processor', [1], cyc=rng.choice([0, 1, 2, 4]), offmod=rng.choice([0, -3, -5, -10, 2]),
                        offmod2=rng.choice([0, 0, 3, 2]), foff=rng.choice([0, 1, 3]), cycmod=rng.choice([0, 0, 2, 3])),
                    dev('sink', [2], cyc=rng.choice([0, 1]), offmod=rng.choice([0, 0, 2, 4]))]
            cfg = dict(devs=devs, horizon=H)
            fam = 'offsets'
        elif kind == 4:      # calls made between two runs (split horizon)
            devs = [src(rng.choice([1, 2]), rng.choice([3, 6, -1]), pval=1), dev('processor', [1], cyc=rng.choice([2, 3]), req={'A': 1}),
                    dev('buffer', [2], cap=2, delay=rng.choice([0, 1])), dev('sink', [3], cyc=rng.choice([0, 2]))]
            t = rng.choice([4, 6, 9])
            script = [dict(t=t, call=rng.choice(['addres', 'addres', 'block', 'shutdown', 'adjust']), dev=rng.choice([2, 2, 3]), res='A',
                           arg=rng.choice([1, 2, -1]), between=True),
                      dict(t=t + 4, call=rng.choice(['addres', 'unblock', 'restore']), dev=rng.choice([2, 3]), res='A', arg=1, between=True)]
            for c in script:
                if c['call'] == 'adjust':
                    c['dev'] = 1
                if c['call'] in ('shutdown', 'restore'):
                    c['dev'] = 2
            cfg = dict(devs=devs, script=script, horizon=H, pools={'A': rng.choice([1, 2])})
            fam = 'between-runs'
        elif kind == 6 and i % 32 >= 16:   # machines behind pass-through branches, parts piling up in a buffer first
            two = i % 64 >= 32      # a second buffer behind one blocked gate: several parts handed over by one pass event
            pre = [dev('buffer', [1], cap=-1, delay=0), dev('gate', [2])] if two else []
            b = len(pre) + 2
            devs = [src(rng.choice([1, 2]), rng.choice([4, 6, 9]), pval=1)] + pre + [
                    dev('buffer', [b - 1], cap=-1, delay=0),
                    dev(rng.choice(['gate', 'junction']), [b]), dev(rng.choice(['gate', 'junction']), [b]),
                    dev('processor', [b + 1], cyc=rng.choice([2, 3, 5])), dev('processor', [b + 1], cyc=rng.choice([2, 4])),
                    dev('processor', [b + 2], cyc=rng.choice([1, 3])),
                    dev('sink', [b + 3, b + 4, b + 5], cyc=0)]
            t0 = rng.choice([6, 8]) if two else rng.choice([4, 6, 8])
            back = [1, 3, 4]
            rng.shuffle(back)
            blocked = [3] if two else [b + 1, b + 2]
            script = [dict(t=0, prio=115, call='block', dev=g) for g in blocked] + \
                     [dict(t=0, prio=115, call='shutdown', dev=b + 3 + j) for j in range(3)] + \
                     [dict(t=back[j], call='restore', dev=b + 3 + j) for j in range(3)] + \
                     [dict(t=t0, call='unblock', dev=g) for g in blocked]
            cfg = dict(devs=devs, script=script, horizon=H + 8)
            fam = 'idle-longest'
        elif kind == 6:   # parallel machines, one blocked for a while from (nearly) the start: idle longest
            k = rng.choice([2, 2, 3])
            devs = [src(rng.choice([3, 4, 6]), rng.choice([6, 9, -1]), pval=1)]
            for j in range(k):
                devs.append(dev(rng.choice(['handler', 'processor']), [1], cyc=rng.choice([1, 2])))
            devs.append(dev('sink', list(range(2, k + 2)), cyc=0))
            tgt = rng.choice(range(2, k + 2))
            t1 = rng.choice([1, 2, 3])
            script = [dict(t=t1, call='block', dev=tgt), dict(t=t1 + rng.choice([2, 4, 6]), call='unblock', dev=tgt)]
            cfg = dict(devs=devs, script=script, horizon=H + 8)
            fam = 'idle-longest'
        elif kind == 7:  # rework loop: parts pass the same junction, machine and gates twice
            c = rng.choice([2, 3, 4])
            devs = [src(rng.choice([1, 2, 3]), rng.choice([3, 5, 8]), pval=1),
                    dev('junction', [1, 6]),
                    dev('processor', [2], cyc=c, qinc=True),
                    dev('gate', [3], pred='qge3'),
                    dev('gate', [3], pred='qeq2'),
                    dev('buffer', [5], cap=rng.choice([1, 2, 3]), delay=rng.choice([0, 1])),
                    dev('sink', [4], cyc=rng.choice([0, 2]))]
            cfg = dict(devs=devs, horizon=H + 16)
            fam = 'rework-loop'
        elif kind == 5 and i % 16 == 5:   # a source that starts with no parts and is replenished later
            devs = [src(rng.choice([1, 2]), 0, pval=1), dev(rng.choice(['handler', 'processor', 'buffer']), [1], cyc=rng.choice([1, 2]), cap=2),
                    dev('sink', [2], cyc=0)]
            script = [dict(t=rng.choice([3, 5]), call='adjust', dev=1, arg=rng.choice([1, 2, 3])),
                      dict(t=rng.choice([9, 12]), call='adjust', dev=1, arg=rng.choice([-1, 1, 2]))]
            cfg = dict(devs=devs, script=script, horizon=H)
            fam = 'empty-source'
        elif kind == 5 and i % 32 == 29:  # a work order that starts at the very instant a resource-using machine finishes
            sc, c = rng.choice([4, 5]), rng.choice([2, 3])
            devs = [src(sc, rng.choice([2, 3]), pval=1),
                    dev('processor', [1], cyc=c, req={'A': 1}, wodur=rng.choice([2, 3, 5]), wocap=rng.choice([0, 1]), wocost=1),
                    dev('sink', [2], cyc=0),
                    src(rng.choice([3, 7]), 2, pval=1), dev('processor', [4], cyc=2, req={'A': 1}), dev('sink', [5], cyc=0)]
            script = [dict(t=sc * rng.choice([1, 2]) + c, prio=rng.choice([115, 115, 20]), call='workorder', dev=2, res='x')]
            if rng.random() < 0.5:
                script.append(dict(t=sc + c + rng.choice([0, 1, 4]), call='workorder', dev=2, res='y'))
            cfg = dict(devs=devs, script=script, horizon=H + 8, maintcap=rng.choice([1, -1]), pools={'A': rng.choice([1, 1, 2])})
            fam = 'workorders'
        elif kind == 5 and i % 16 == 13:  # work orders (also two tags on one machine, failures during the order)
            devs = [src(rng.choice([1, 2]), rng.choice([4, 6, -1]), pval=1),
                    dev('processor', [1], cyc=rng.choice([2, 3, 6]), wodur=rng.choice([2, 3, 5]), wocap=rng.choice([0, 0, 1]),
                        wocost=rng.choice([0, 2, -1])),
                    dev('processor', [2], cyc=rng.choice([1, 2]), wodur=rng.choice([0, 1, 4]), wocap=rng.choice([0, 1, 2]), wocost=1),
                    dev('sink', [3], cyc=0)]
            t1 = rng.choice([2, 3, 5])
            script = [dict(t=t1, call='workorder', dev=2, res='x'),
                      dict(t=t1 + rng.choice([0, 0, 1]), call='workorder', dev=rng.choice([2, 2, 3]), res='y'),
                      dict(t=t1 + rng.choice([0, 3, 8]), call='workorder', dev=rng.choice([2, 3]), res='x')]
            if rng.random() < 0.4:
                script.append(dict(t=t1 + 1, call='fail', dev=2, arg=rng.choice([0, 1])))
            cfg = dict(devs=devs, script=script, horizon=H + 8, maintcap=rng.choice([1, 2, -1]))
            fam = 'workorders'
        elif kind == 8 and i % 64 >= 32:   # a machine blocked on a slow downstream gets a second, idle downstream
            devs = [src(1, rng.choice([4, 6, -1]), pval=1), dev(rng.choice(['processor', 'handler']), [1], cyc=1),
                    dev('processor', [2], cyc=rng.choice([20, 30])), dev('sink', [3], cyc=0),
                    dev(rng.choice(['handler', 'processor', 'buffer']), [], cyc=rng.choice([1, 2]), cap=2), dev('sink', [5], cyc=0)]
            script = [dict(t=rng.choice([5, 7, 9]), call='rewire', dev=5, ups=[2])]
            cfg = dict(devs=devs, script=script, horizon=H + 8)
            fam = 'rewire'
        elif kind == 8:   # connections added or moved while the simulation runs
            devs = [src(rng.choice([1, 2]), rng.choice([3, 5, -1]), pval=1),
                    dev(rng.choice(['handler', 'processor']), [1], cyc=rng.choice([1, 2])),
                    dev(rng.choice(['handler', 'buffer']), [], cyc=rng.choice([1, 3]), cap=2),
                    dev('sink', [], cyc=0), dev('sink', [3], cyc=rng.choice([0, 2]))]
            t1 = rng.choice([3, 5, 7])
            script = [dict(t=t1, call='rewire', dev=4, ups=[2]),                 # the blocked machine gets a sink
                      dict(t=t1 + rng.choice([2, 4]), call='rewire', dev=3, ups=[1]),   # a second branch appears
                      dict(t=t1 + rng.choice([8, 10]), call='rewire', dev=4, ups=rng.choice([[2, 3], [3], [3, 2]]))]
            cfg = dict(devs=devs, script=script, horizon=H + 8)
            fam = 'rewire'
        elif kind == 9:   # an operating schedule blocks and unblocks a machine's input (OperatingSchedule shape)
            devs = [src(rng.choice([1, 2]), rng.choice([6, 9, -1]), pval=1),
                    dev(rng.choice(['processor', 'handler', 'buffer']), [1], cyc=rng.choice([1, 2, 3]), cap=2),
                    dev('processor', [2], cyc=rng.choice([1, 2])), dev('sink', [3], cyc=0)]
            tt = [[rng.choice([2, 3, 5]), 'on'], [rng.choice([1, 2, 4]), 'off']]
            if rng.random() < 0.3:
                tt.append([rng.choice([0, 1, 2]), 'on'])
            scheds = [dict(tt=tt, cyc=rng.random() < 0.75, targets=rng.choice([[2], [3], [2, 3]]))]
            if rng.random() < 0.3:
                scheds.append(dict(tt=[[4, 'off'], [3, 'on']], cyc=True, targets=[4]))
            cfg = dict(devs=devs, horizon=H, scheds=scheds)
            fam = 'schedule'
        else:                # a blocked machine that goes down with a finished part while downstream frees up
            devs = [src(1, rng.choice([3, 5, -1]), pval=1), dev('processor', [1], cyc=rng.choice([1, 2])),
                    dev('processor', [2], cyc=rng.choice([6, 8, 10])), dev('sink', [3], cyc=0)]
            t1 = rng.choice([3, 4, 5])
            script = [dict(t=t1, call=rng.choice(['shutdown', 'fail']), dev=2, arg=0),
                      dict(t=t1 + rng.choice([6, 8, 10, 12]), call='restore', dev=2)]
            cfg = dict(devs=devs, script=script, horizon=H + 8)
            fam = 'down-while-blocked'
        cfg = norm(cfg)
        cfg['family'] = fam
        out.append(cfg)
    return out


def gen_cbm(rng, count=24):
    """Condition-based maintenance: machines that wear with every finished part (the part's quality is
    the machine's damage), an output-part sensor (every (n+1)-th part) and / or a periodic sensor on
    the damage, a condition-monitoring system that requests a work order when a reading reaches a
    threshold, and a repair that resets the damage.  Also with failures, blocked inputs and a
    maintainer that serves one order at a time."""
    out = []
    for i in range(count):
        def machine(ups):
            return dev('processor', ups, cyc=rng.choice([1, 2, 3]), wear=rng.choice([1, 1, 2]),
                       sint=rng.choice([-1, 0, 0, 1, 2, 3]), pint=rng.choice([0, 0, 3, 4, 5, 7]),
                       scap=rng.choice([-1, -1, 1, 2, 3]), thr=rng.choice([0, 2, 3, 4, 6]),
                       wodur=rng.choice([0, 2, 3, 5]), wocap=rng.choice([0, 1, 1]), wocost=rng.choice([0, 1, -1]),
                       req=rng.choice([{}, {}, {'A': 1}]))
        shape = i % 4
        s = src(rng.choice([1, 2, 3]), rng.choice([6, 9, 12, -1]), pval=1)
        if shape == 0:
            devs = [s, machine([1]), dev('sink', [2], cyc=0)]
        elif shape == 1:
            devs = [s, machine([1]), dev('buffer', [2], cap=rng.choice([1, 2, -1]), delay=rng.choice([0, 1])), machine([3]),
                    dev('sink', [4], cyc=0)]
        elif shape == 2:
            devs = [s, machine([1]), machine([1]), dev('sink', [2, 3], cyc=rng.choice([0, 1]))]
        else:
            devs = [s, dev('buffer', [1], cap=rng.choice([2, 3]), delay=0), machine([2]), machine([3]), dev('sink', [4], cyc=0)]
        ms = [j + 1 for j, d in enumerate(devs) if d['kind'] == 'processor']
        if all(devs[m - 1]['sint'] < 0 and devs[m - 1]['pint'] == 0 for m in ms):
            devs[ms[0] - 1]['sint'] = 0
        script = []
        if rng.random() < 0.4:
            m = rng.choice(ms)
            t = rng.choice([3, 5, 8])
            script += [dict(t=t, call='fail', dev=m, arg=rng.choice([0, 2])), dict(t=t + rng.choice([3, 5]), call='restore', dev=m, prio=90)]
        if rng.random() < 0.3:
            m = rng.choice(ms)
            t = rng.choice([2, 6, 9])
            script += [dict(t=t, call='block', dev=m), dict(t=t + rng.choice([2, 4]), call='unblock', dev=m)]
        if rng.random() < 0.3:
            script.append(dict(t=rng.choice([4, 7, 10]), call='workorder', dev=rng.choice(ms), res='y'))
        cfg = norm(dict(devs=devs, script=script, horizon=rng.choice([24, 32, 40]), pools={'A': rng.choice([1, 2])},
                        maintcap=rng.choice([1, 1, 2, -1])))
        cfg['family'] = 'cbm'
        out.append(cfg)
    return out


def gen_misc(rng, count=24):
    """Further targeted situations: a part that changes its value while it waits in a source; a buffer whose
    oldest item is refused while a younger one would be taken (parity gates in front of a fast and a slow
    machine; a batch that does not fit the next buffer while a single part would); several blocked machines
    that get one common downstream at once."""
    out = []
    for i in range(count):
        kind = i % 6
        H = rng.choice([24, 32])
        if kind == 5:
            # one part worth 10^9 and then parts worth 1: every change counts, however small against the total
            big = rng.choice([1000000000, 1000000000, -1000000000])
            devs = [src(2, 1, pval=big), src(rng.choice([3, 4]), rng.choice([3, 5]), pval=rng.choice([1, 1, -1])),
                    dev(rng.choice(['handler', 'processor', 'buffer']), [1, 2], cyc=1, cap=3, vadd=rng.choice([0, 1])),
                    dev('sink', [3], cyc=0)]
            cfg = dict(devs=devs, horizon=H)
            fam = 'big-values'
        elif kind == 4:
            # a machine stopped and restored in mid-cycle finishes late; its neighbour has become idle meanwhile and has
            # been idle longer when the next part arrives
            sc = rng.choice([6, 6, 7])
            devs = [src(sc, rng.choice([4, 6, -1]), pval=1), dev('processor', [1], cyc=rng.choice([7, 8])),
                    dev(rng.choice(['processor', 'handler']), [1], cyc=rng.choice([1, 2])), dev('sink', [2, 3], cyc=0)]
            t = sc + rng.choice([1, 2])
            cfg = dict(devs=devs, script=[dict(t=t, call='shutdown', dev=2), dict(t=t + 3, call='restore', dev=2, prio=rng.choice([20, 90]))],
                       horizon=H + 8)
            fam = 'idle-longest'
        elif kind == 0:
            devs = [src(1, rng.choice([3, 5, -1]), pval=rng.choice([1, 2])), dev('processor', [1], cyc=rng.choice([5, 6, 8])),
                    dev('sink', [2], cyc=0)]
            script = [dict(t=t, prio=rng.choice([20, 115]), call='partnoise', dev=1, arg=rng.choice([1, 2, 3, -1]))
                      for t in rng.sample(range(2, 16), rng.choice([2, 3]))]
            cfg = dict(devs=devs, script=script, horizon=H)
            fam = 'waiting-part-changes'
        elif kind == 1:
            slow, fast = rng.choice([6, 8, 10]), rng.choice([1, 2])
            odd_first = rng.random() < 0.5
            devs = [src(1, rng.choice([6, 8, -1]), pval=1), dev('buffer', [1], cap=rng.choice([4, 6, -1]), delay=rng.choice([0, 0, 1])),
                    dev('gate', [2], pred='odd' if odd_first else 'even'), dev('gate', [2], pred='even' if odd_first else 'odd'),
                    dev('processor', [3], cyc=slow), dev('processor', [4], cyc=fast), dev('sink', [5, 6], cyc=0)]
            if rng.random() < 0.5:
                devs[4]['cyc'], devs[5]['cyc'] = fast, slow
            cfg = dict(devs=devs, horizon=H)
            fam = 'fifo-head-refused'
        elif kind == 2:
            s = src(1, rng.choice([6, 9]), pval=1, bsrc=rng.choice([2, 3]))
            s['bmix'] = True
            devs = [s, dev('buffer', [1], cap=-1, delay=0), dev('buffer', [2], cap=rng.choice([3, 4]), delay=0),
                    dev('processor', [3], cyc=rng.choice([4, 6])), dev('sink', [4], cyc=0)]
            cfg = dict(devs=devs, horizon=H + 8)
            fam = 'fifo-head-refused'
        else:
            k = rng.choice([2, 3, 3])
            devs = []
            for j in range(k):
                devs.append(src(rng.choice([1, 2]), rng.choice([3, 5]), pval=1 + j))
            for j in range(k):
                devs.append(dev(rng.choice(['processor', 'handler']), [j + 1], cyc=rng.choice([1, 2])))
            devs.append(dev(rng.choice(['sink', 'processor']), [], cyc=rng.choice([1, 2, 3])))
            if devs[-1]['kind'] == 'processor':
                devs.append(dev('sink', [2 * k + 1], cyc=0))
            ups = list(range(k + 1, 2 * k + 1))
            rng.shuffle(ups)
            cfg = dict(devs=devs, script=[dict(t=rng.choice([5, 6, 8]), call='rewire', dev=2 * k + 1, ups=ups)], horizon=H)
            fam = 'rewire-fan-in'
        cfg = norm(cfg)
        cfg['family'] = fam
        out.append(cfg)
    return out


def gen_batch(rng, count=60):
    """single parts and batches through batchers, buffers, processors and sinks"""
    out = []
    while len(out) < count:
        bsrc = rng.choice([-1, -1, 1, 2, 3, 3, 0])
        devs = [src(rng.choice([1, 2, 3]), rng.choice([4, 6, 9, -1]), pval=rng.choice([0, 1, 2, -1]), bsrc=bsrc)]
        devs[0]['bmix'] = bsrc > 0 and rng.random() < 0.4
        shape = rng.choice(['b', 'bb', 'buf-b', 'b-buf-b', 'b-proc-b', 'buf-b-buf', 'b-jun-slow', 'b-jun-slow', 'buf', 'buf', 'mixbuf'])
        biggest = max(bsrc, 1)
        if shape == 'mixbuf':       # batches and single parts pile up in a buffer behind a blocked consumer
            devs[0] = src(rng.choice([1, 1, 2]), rng.choice([6, 9, -1]), pval=1, bsrc=rng.choice([2, 3]))
            devs[0]['bmix'] = True
            devs.append(dev('buffer', [1], cap=rng.choice([8, 12, -1]), delay=rng.choice([0, 0, 1])))
            devs.append(dev(rng.choice(['sink', 'buffer', 'batcher']), [2], cyc=0, cap=-1, delay=0, bsize=0))
            if devs[-1]['kind'] != 'sink':
                devs.append(dev('sink', [3], cyc=0))
            t = rng.choice([1, 2, 3])
            cfg = norm(dict(devs=devs, script=[dict(t=t, call='block', dev=3), dict(t=t + rng.choice([4, 6, 8]), call='unblock', dev=3)],
                            horizon=rng.choice([16, 24])))
            if is_well_posed(cfg):
                cfg['family'] = 'batch'
                out.append(cfg)
            continue
        for tok in shape.split('-'):
            up = [len(devs)]
            if tok in ('b', 'bb'):
                for _ in tok:
                    n = rng.choice([0, 0, 1, 2, 3])
                    devs.append(dev('batcher', [len(devs)], bsize=n))
                    biggest = max(n, 1) if n > 0 else 1
            elif tok == 'buf':
                if bsrc == 0 and len(devs) == 1:
                    devs.append(dev('batcher', up, bsize=rng.choice([0, 2])))   # empty batches go to a batcher first
                    biggest = 2
                    up = [len(devs)]
                cap = rng.choice([biggest, biggest + 1, 2 * biggest, 6, -1])
                if cap != -1:
                    cap = max(cap, biggest, 1)
                devs.append(dev('buffer', up, cap=cap, delay=rng.choice([0, 0, 1, 2, 5, 10])))
            elif tok == 'proc':
                devs.append(dev('processor', up, cyc=rng.choice([1, 2, 3]), vadd=rng.choice([0, 1, -1])))
            elif tok == 'jun':
                devs.append(dev(rng.choice(['junction', 'gate']), up))
            elif tok == 'slow':
                devs.append(dev('processor', up, cyc=rng.choice([5, 7, 9])))
        if bsrc == 0 and devs[1]['kind'] != 'batcher':
            continue
        devs.append(dev('sink', [len(devs)], cyc=rng.choice([0, 0, 1, 3]), vadd=rng.choice([0, 0, 2, -1])))
        script = []
        if rng.random() < 0.4:
            tgt = rng.choice([d for d in range(2, len(devs) + 1)])
            t = rng.choice([2, 4, 6])
            script = [dict(t=t, call='block', dev=tgt), dict(t=t + rng.choice([2, 5]), call='unblock', dev=tgt)]
        cfg = norm(dict(devs=devs, script=script, horizon=rng.choice([16, 24, 32])))
        if is_well_posed(cfg):
            cfg['family'] = 'batch'
            out.append(cfg)
    return out


def gen_gates(rng, count=60):
    """decision gates: complementary predicates on part parity or on a quality set by a processor,
    gate chains, a gate in front of a buffer, congestion behind the gates"""
    out = []
    while len(out) < count:
        shape = rng.choice(['parity', 'quality', 'chain', 'gate-buffer', 'parity'])
        devs = [src(rng.choice([1, 2]), rng.choice([4, 6, -1]), pval=1)]
        if shape == 'parity':
            devs.append(dev('gate', [1], pred='even'))
            devs.append(dev('gate', [1], pred='odd'))
            devs.append(dev(rng.choice(['handler', 'processor']), [2], cyc=rng.choice([1, 3, 5])))
            devs.append(dev(rng.choice(['handler', 'processor', 'buffer']), [3], cyc=rng.choice([1, 2, 4]), cap=1))
            if rng.random() < 0.5:
                devs.append(dev('sink', [4, 5], cyc=rng.choice([0, 2])))
            else:
                devs.append(dev('sink', [4], cyc=0))
                devs.append(dev('sink', [5], cyc=rng.choice([0, 3])))
        elif shape == 'quality':
            devs.append(dev('processor', [1], cyc=rng.choice([1, 2]), qset=rng.choice([2, 3])))
            devs.append(dev('gate', [2], pred='q1'))
            devs.append(dev('gate', [2], pred='q2'))
            devs.append(dev('handler', [3], cyc=rng.choice([1, 4])))
            devs.append(dev('buffer', [4], cap=rng.choice([1, 2]), delay=rng.choice([0, 2])))
            devs.append(dev('sink', [5], cyc=0))
            devs.append(dev('sink', [6], cyc=rng.choice([0, 2, 5])))
        elif shape == 'chain':
            devs.append(dev('gate', [1], pred='all'))
            devs.append(dev('gate', [2], pred=rng.choice(['all', 'even'])))
            devs.append(dev('gate', [2], pred=rng.choice(['all', 'odd'])))
            devs.append(dev('processor', [3], cyc=rng.choice([2, 3])))
            devs.append(dev('processor', [4], cyc=rng.choice([2, 5])))
            devs.append(dev('sink', [5, 6], cyc=rng.choice([0, 1])))
        else:
            devs.append(dev('handler', [1], cyc=1))
            devs.append(dev('gate', [2], pred=rng.choice(['all', 'even'])))
            devs.append(dev('gate', [2], pred='odd'))
            devs.append(dev('buffer', [3], cap=rng.choice([1, 2]), delay=rng.choice([0, 1])))
            devs.append(dev('sink', [5], cyc=rng.choice([1, 3])))
            devs.append(dev('sink', [4], cyc=0))
        script = []
        if rng.random() < 0.5:
            tgt = rng.choice(range(2, len(devs) + 1))
            t = rng.choice([1, 3, 5])
            script += [dict(t=t, call='block', dev=tgt), dict(t=t + rng.choice([2, 4, 7]), call='unblock', dev=tgt)]
        cfg = norm(dict(devs=devs, script=script, horizon=rng.choice([16, 24])))
        cfg['family'] = 'gates'
        out.append(cfg)
    return out


def group_block(devs, members, inputs=None, outputs=None):
    """Appends the input / output pseudo-devices of a group over existing member devices; returns (gin, gout).
    The input devices must have been created with ups=[] (the group connects them)."""
    inputs = sorted(inputs or members[:1])
    outputs = sorted(outputs or members[-1:])
    gin = len(devs) + 1
    for m in inputs:
        devs[m - 1]['ups'] = [gin]
    devs.append(dev('ginput', [], members=list(members), inputs=inputs, outputs=outputs))
    devs.append(dev('goutput', outputs))
    return gin, gin + 1


def gen_groups(rng, count=40):
    """shared-machine groups: two lines sharing a group, re-entrant flow, a two-machine group, a nested group"""
    out = []
    while len(out) < count:
        shape = rng.choice(['shared', 'shared', 'reentrant', 'two-machine', 'nested', 'gate-only', 'nested-inner-first',
                            'batch-path', 'rework-path', 'multi-input', 'path-fanout', 'blocked-exit'])
        devs = []
        script = []
        if shape in ('shared', 'two-machine'):
            devs.append(src(rng.choice([1, 2, 3]), rng.choice([3, 5, -1]), pval=1))
            devs.append(src(rng.choice([1, 2, 4]), rng.choice([3, 5, -1]), pval=2))
            if shape == 'shared':
                devs.append(dev('processor', [], cyc=rng.choice([1, 2, 3])))
                members = [3]
            else:
                devs.append(dev('processor', [], cyc=rng.choice([1, 2])))
                devs.append(dev('buffer', [3], cap=rng.choice([1, 2]), delay=rng.choice([0, 1])))
                devs.append(dev('processor', [4], cyc=rng.choice([1, 3])))
                members = [3, 4, 5]
            gin, gout = group_block(devs, members)
            devs.append(dev('gpath', [1], gin=gin, gout=gout))
            p1 = len(devs)
            devs.append(dev('gpath', [2], gin=gin, gout=gout))
            p2 = len(devs)
            devs.append(dev('sink', [p1], cyc=rng.choice([0, 0, 3])))
            devs.append(dev(rng.choice(['sink', 'sink', 'handler']), [p2], cyc=rng.choice([0, 2, 5])))
            if devs[-1]['kind'] == 'handler':
                devs.append(dev('sink', [len(devs)], cyc=0))
            if rng.random() < 0.4:
                t = rng.choice([2, 4])
                script = [dict(t=t, call='block', dev=rng.choice([p1, p2])), dict(t=t + rng.choice([3, 6]), call='unblock', dev=p1),
                          dict(t=t + 7, call='unblock', dev=p2)]
        elif shape == 'path-fanout':    # the parts of one path leave the group towards two machines that are both free
            devs.append(src(rng.choice([2, 3]), rng.choice([3, 5, -1]), pval=1))
            devs.append(src(rng.choice([2, 4]), rng.choice([3, 5]), pval=2))
            devs.append(dev('processor', [], cyc=rng.choice([1, 2])))
            gin, gout = group_block(devs, [3])
            devs.append(dev('gpath', [1], gin=gin, gout=gout))
            p1 = len(devs)
            devs.append(dev('gpath', [2], gin=gin, gout=gout))
            p2 = len(devs)
            devs.append(dev(rng.choice(['handler', 'processor']), [p1], cyc=rng.choice([1, 3])))
            devs.append(dev(rng.choice(['handler', 'processor', 'buffer']), [p1], cyc=rng.choice([1, 2]), cap=2))
            devs.append(dev('sink', [len(devs) - 1, len(devs), p2], cyc=0))
        elif shape == 'blocked-exit':   # a path's entry is closed while its part, finished inside the group, waits for a stopped machine
            devs.append(src(rng.choice([1, 2]), rng.choice([4, 6, -1]), pval=1))
            devs.append(src(rng.choice([2, 3]), rng.choice([3, 5]), pval=2))
            devs.append(dev('processor', [], cyc=rng.choice([1, 2])))
            gin, gout = group_block(devs, [3])
            devs.append(dev('gpath', [1], gin=gin, gout=gout))
            p1 = len(devs)
            devs.append(dev('gpath', [2], gin=gin, gout=gout))
            p2 = len(devs)
            devs.append(dev('processor', [p1], cyc=rng.choice([1, 2])))
            da = len(devs)
            devs.append(dev('sink', [da], cyc=0))
            devs.append(dev('sink', [p2], cyc=0))
            t = rng.choice([0, 1])
            script = [dict(t=t, prio=115, call='shutdown', dev=da), dict(t=t + rng.choice([4, 5]), call='block', dev=p1),
                      dict(t=t + 7, call='restore', dev=da), dict(t=t + rng.choice([10, 12]), call='unblock', dev=p1)]
        elif shape == 'gate-only':      # a group made of a shared decision gate only (nothing in it holds a part)
            devs.append(src(rng.choice([1, 2]), rng.choice([3, 5]), pval=1))
            devs.append(src(rng.choice([2, 3]), rng.choice([2, 4]), pval=1))
            devs.append(dev('gate', [], pred=rng.choice(['all', 'odd'])))
            gin, gout = group_block(devs, [3])
            devs.append(dev('gpath', [1], gin=gin, gout=gout))
            devs.append(dev('gpath', [2], gin=gin, gout=gout))
            devs.append(dev('processor', [len(devs) - 1], cyc=rng.choice([1, 3])))
            devs.append(dev('handler', [len(devs) - 1], cyc=rng.choice([1, 2])))
            devs.append(dev('sink', [len(devs) - 1, len(devs)], cyc=0))
        elif shape == 'nested-inner-first':   # the inner group's path is the first device of the outer group
            devs.append(src(rng.choice([1, 2, 3]), rng.choice([3, 5]), pval=1))
            devs.append(src(rng.choice([2, 3]), rng.choice([2, 4]), pval=1))
            devs.append(dev('processor', [], cyc=rng.choice([1, 2])))            # 3 inner machine
            igin, igout = group_block(devs, [3])                                  # 4, 5
            devs.append(dev('gpath', [], gin=igin, gout=igout))                   # 6 inner path = outer input
            devs.append(dev('handler', [6], cyc=rng.choice([1, 2])))              # 7
            ogin, ogout = group_block(devs, [6, 7], inputs=[6], outputs=[7])      # 8, 9
            devs.append(dev('gpath', [1], gin=ogin, gout=ogout))                  # 10
            devs.append(dev('gpath', [2], gin=ogin, gout=ogout))                  # 11
            devs.append(dev('sink', [10], cyc=0))
            devs.append(dev('sink', [11], cyc=rng.choice([0, 2])))
        elif shape == 'batch-path':     # batches (from the source or from a batcher) are refused and later accepted at a path
            devs.append(src(rng.choice([1, 2]), rng.choice([4, 6]), pval=1, bsrc=rng.choice([-1, 2, 3])))
            devs.append(dev('batcher', [1], bsize=rng.choice([2, 3])))
            devs.append(dev('processor', [], cyc=rng.choice([4, 6, 7])))
            gin, gout = group_block(devs, [3])
            devs.append(dev('gpath', [2], gin=gin, gout=gout))
            devs.append(dev('sink', [len(devs)], cyc=0))
        elif shape == 'rework-path':    # parts pass the same group path twice; the second hand-over is often refused
            devs.append(src(rng.choice([1, 2, 3]), rng.choice([3, 5, 8]), pval=1))
            devs.append(dev('junction', [1, 9]))                                  # 2
            devs.append(dev('processor', [], cyc=rng.choice([2, 3, 4]), qinc=True))   # 3
            gin, gout = group_block(devs, [3])                                    # 4, 5
            devs.append(dev('gpath', [2], gin=gin, gout=gout))                    # 6
            devs.append(dev('gate', [6], pred='qge3'))                            # 7
            devs.append(dev('gate', [6], pred='qeq2'))                            # 8
            devs.append(dev('buffer', [8], cap=rng.choice([1, 2, 3]), delay=rng.choice([0, 1])))   # 9
            devs.append(dev('sink', [7], cyc=rng.choice([0, 2])))
        elif shape == 'multi-input':    # a group with two input machines that need the same resource
            devs.append(src(rng.choice([2, 3, 4]), rng.choice([3, 5]), pval=1))
            devs.append(dev('processor', [], cyc=rng.choice([1, 2, 5]), req={'A': 1}))
            devs.append(dev('processor', [], cyc=rng.choice([1, 2, 5]), req={'A': 1}))
            gin, gout = group_block(devs, [2, 3], inputs=[2, 3], outputs=[2, 3])
            devs.append(dev('gpath', [1], gin=gin, gout=gout))
            devs.append(dev('sink', [len(devs)], cyc=0))
        elif shape == 'reentrant':
            devs.append(src(rng.choice([2, 3, 4]), rng.choice([2, 3, 4]), pval=1))
            devs.append(dev('processor', [], cyc=rng.choice([1, 2])))
            gin, gout = group_block(devs, [2])
            devs.append(dev('gpath', [1], gin=gin, gout=gout))
            p1 = len(devs)
            devs.append(dev(rng.choice(['handler', 'buffer']), [p1], cyc=rng.choice([1, 2]), cap=rng.choice([1, 2]), delay=1))
            devs.append(dev('gpath', [len(devs)], gin=gin, gout=gout))
            devs.append(dev('sink', [len(devs)], cyc=0))
        else:
            devs.append(src(rng.choice([1, 2, 3]), rng.choice([3, 5]), pval=1))
            devs.append(src(rng.choice([2, 3]), rng.choice([2, 4]), pval=1))
            devs.append(dev('processor', [], cyc=rng.choice([1, 2])))            # 3: inner machine
            igin, igout = group_block(devs, [3])                                  # 4, 5
            devs.append(dev('handler', [], cyc=rng.choice([0, 1])))               # 6: outer group's first device
            devs.append(dev('gpath', [6], gin=igin, gout=igout))                  # 7: inner path, member of the outer group
            ogin, ogout = group_block(devs, [6, 7], inputs=[6], outputs=[7])      # 8, 9
            devs.append(dev('gpath', [1], gin=ogin, gout=ogout))                  # 10
            devs.append(dev('gpath', [2], gin=ogin, gout=ogout))                  # 11
            devs.append(dev('sink', [10], cyc=0))
            devs.append(dev('sink', [11], cyc=rng.choice([0, 2])))
        if rng.random() < 0.35:
            procs = [i + 1 for i, d in enumerate(devs) if d['kind'] == 'processor']
            t = rng.choice([3, 5])
            script += [dict(t=t, call=rng.choice(['fail', 'shutdown']), dev=rng.choice(procs), arg=0),
                       dict(t=t + rng.choice([2, 4]), call='restore', dev=procs[0])]
        cfg = norm(dict(devs=devs, script=script, horizon=rng.choice([16, 24, 32]),
                        pools={'A': rng.choice([1, 2, 2])} if shape == 'multi-input' else {}))
        cfg['family'] = 'groups'
        out.append(cfg)
    return out


def gen_nested():
    """Batches that contain batches (only a user-written part generator makes them): the value of the outer batch
    is the sum over the inner batches, which are the sums over their parts; buffers and sinks count the direct
    members.  Deterministic shapes, kept away from batchers (a batcher would re-pack the inner batches)."""
    out = []
    shapes = [
        [src(2, 3, pval=1, bsrc=2), dev('sink', [1], cyc=0)],
        [src(2, 3, pval=2, bsrc=2), dev('processor', [1], cyc=1, vadd=1), dev('sink', [2], cyc=1)],
        [src(1, 4, pval=3, bsrc=3), dev('buffer', [1], cap=-1), dev('handler', [2], cyc=2), dev('sink', [3], cyc=0)],
        [src(3, 2, pval=-2, bsrc=1), dev('handler', [1], cyc=1), dev('sink', [2], cyc=0)],
        [src(2, 4, pval=1, bsrc=2), dev('gate', [1], pred='all'), dev('processor', [2], cyc=3), dev('sink', [3], cyc=0)],
    ]
    for i, devs in enumerate(shapes):
        devs[0]['bnest'] = [2, 1, 2, 3, 2][i]
        if i == 3:
            devs[0]['bmix'] = True
        cfg = norm(dict(devs=devs, horizon=16))
        cfg['family'] = 'nested-batch'
        out.append(cfg)
    # the budget of a source cut down to (or below) what it has supplied while its next part waits in the output slot
    # for a busy machine: that part must not leave any more
    for cut, t, slow in ((-4, 12, 40), (-9, 6, 30), (-3, 10, 24)):
        devs = [src(4, 5, pval=1), dev('processor', [1], cyc=slow), dev('sink', [2], cyc=0)]
        cfg = norm(dict(devs=devs, script=[dict(t=t, call='adjust', dev=1, arg=cut)], horizon=slow + 40))
        cfg['family'] = 'budget-cut-while-waiting'
        out.append(cfg)
    return out


def quick_family(seed, scale=1.0):
    """The configurations of the quick tier (a few hundred)."""
    rng = random.Random(seed * 7919 + 13)
    out = []
    ser = gen_serial(rng, 3, max(260, int(260 * scale)), horizon=(16, 24, 40))     # serial lines are cheap: always 260+
    out += ser
    out += [add_faults(rng, c, rng.choice([1, 2, 3])) for c in gen_serial(rng, 3, max(4, int(90 * scale)))
            if any(d['kind'] == 'processor' for d in c['devs'])]
    par = gen_parallel(rng, max(4, int(60 * scale)))
    out += par
    out += [add_faults(rng, c, rng.choice([1, 2, 4])) for c in gen_parallel(rng, max(4, int(60 * scale)))]
    res = gen_resources(rng, max(4, int(60 * scale)))
    out += res
    out += [add_faults(rng, c, rng.choice([1, 2, 4])) for c in gen_resources(rng, max(4, int(60 * scale)))]
    out += gen_targeted(rng, max(128, int(128 * scale)))       # the targeted situations are always all there
    out += gen_batch(rng, max(4, int(90 * scale)))
    out += gen_gates(rng, max(4, int(70 * scale)))
    out += gen_groups(rng, max(4, int(60 * scale)))
    out += [add_faults(rng, c, rng.choice([1, 2, 3])) for c in gen_gates(rng, max(4, int(40 * scale))) + gen_batch(rng, max(4, int(40 * scale)))]
    out += gen_cbm(rng, max(24, int(40 * scale)))
    out += gen_misc(rng, max(36, int(48 * scale)))
    # split runs: a third of the configurations is also run in two or three consecutive runs
    for c in list(out):
        if rng.random() < 0.2 and not c['splits']:
            c2 = dict(c)
            c2['splits'] = sorted(set(rng.sample(range(1, c['horizon']), rng.choice([1, 2]))))
            c2['family'] = c.get('family', '') + '/split'
            out.append(c2)
    out += gen_nested()        # appended last: the random streams and numbering of the other families stay as they were
    for i, c in enumerate(out):
        c['cid'] = i + 1
        c['trace'] = (i % 7 == 3)      # every seventh configuration also exports the event trace file
        c['sharedups'] = (i % 3 == 1)  # a third is built with one scratch upstream list that the builder keeps changing
    return out
