"""Builds a real simprocesd model from a floor configuration (the same JSON is rendered into TLA+
for the closed specification) and provides the tie-break control.

Configuration (times in ticks of 0.25 time units, values small integers):

  {"devs": [ {"id": 1, "kind": "source", "ups": [], "cyc": 4, "budget": -1, "pval": 1, "bsrc": 0}, ...],
   "pools": {"A": 1}, "script": [ {"t": 6, "prio": 20, "call": "fail", "dev": 3, "arg": 0}, ...],
   "horizon": 40, "splits": [], "groups": [...], "maint": {"cap": 1}}

Device kinds: source handler processor buffer sink gate batcher gpath.  Device ids are 1..N in creation
order; asset ids of the real objects are mapped to them by the tracer.
"""
import random as _pyrandom

TICK = 0.25
INF = -1

PRED = {
    'all': lambda part: True,
    'even': lambda part: part._vseq % 2 == 0,
    'odd': lambda part: part._vseq % 2 == 1,
    'q1': lambda part: part.quality == 1,
    'q2': lambda part: part.quality != 1,
    'qeq2': lambda part: part.quality == 2,
    'qge3': lambda part: part.quality >= 3,
}


def leaves(part):
    from simprocesd.model.factory_floor import Batch
    if isinstance(part, Batch):
        out = []
        for p in part.parts:
            out.extend(leaves(p))
        return out
    return [part]


class Model:
    """The real objects of one configuration."""

    def __init__(self, cfg, tracer):
        from simprocesd.model import System, ResourceManager
        from simprocesd.model.factory_floor import (Source, PartHandler, PartProcessor, Buffer, Sink, DecisionGate,
                                                     PartBatcher, PartGenerator, Batch, Group, Maintainer)
        self.cfg = cfg
        self.tr = tracer
        rm = ResourceManager()
        for r, n in sorted((cfg.get('pools') or {}).items()):
            rm.add_resources(r, n)
        self.system = System(rm)
        self.env = self.system.env
        self.rm = rm
        self.dev = {}
        self.names = {}
        self.by_asset = {}
        self.groups = {}
        tr = tracer

        class Gen(PartGenerator):
            """Generates single parts or batches of a fixed size; numbers the leaves."""

            def __init__(self, value, bsrc, bmix=False, bnest=0):
                super().__init__('P', value=value, quality=1)
                self.bsrc = bsrc
                self.bmix = bmix
                self.bnest = bnest       # > 0: every member of the batch is itself a batch of bnest parts

            def generate_part_helper(self, part_name, part_counter):
                from simprocesd.model.factory_floor import Part
                if self.bsrc < 0 or (self.bmix and part_counter % 2 == 0):
                    return Part(part_name, value=self.value, quality=self.quality)
                if self.bnest > 0:
                    ps = [Batch('%s_%d' % (part_name, i),
                                [Part('%s_%d_%d' % (part_name, i, j), value=self.value, quality=self.quality)
                                 for j in range(self.bnest)]) for i in range(self.bsrc)]
                else:
                    ps = [Part('%s_%d' % (part_name, i), value=self.value, quality=self.quality) for i in range(self.bsrc)]
                return Batch(part_name, ps)

        PartFlowController = __import__('simprocesd.model.factory_floor', fromlist=['PartFlowController']).PartFlowController
        shared = []          # 'sharedups': the caller builds every upstream list in one scratch list it keeps changing
        for d in cfg['devs']:
            k = d['kind']
            # a device with an upstream that does not exist yet is wired after all devices were created
            ups = [] if (d.get('late') or k in ('ginput', 'goutput')) else [self.dev[u] for u in d.get('ups', [])]
            if cfg.get('sharedups'):
                shared[:] = ups
                ups = shared
            name = None if cfg.get('noname') else 'd%d' % d['id']      # default names contain the asset id
            if k == 'source':
                budget = float('inf') if d.get('budget', INF) == INF else d['budget']
                o = Source(name, Gen(d.get('pval', 0), d.get('bsrc', -1), d.get('bmix', False), d.get('bnest', 0)), cycle_time=d['cyc'] * TICK,
                           starting_parts=budget)
            elif k == 'handler':
                o = PartHandler(name, ups, cycle_time=d['cyc'] * TICK)
            elif k == 'processor':
                req = d.get('req') or None

                class WP(PartProcessor):
                    """the default Maintainable behaviour (shutdown / restore) with configured order parameters"""
                    _wo = (d.get('wodur', 0) * TICK, d.get('wocap', 0), d.get('wocost', 0))

                    def get_work_order_duration(self, tag):
                        return self._wo[0]

                    def get_work_order_capacity(self, tag):
                        return self._wo[1]

                    def get_work_order_cost(self, tag):
                        return self._wo[2]

                    damage = 0
                    _wear = d.get('wear', 0)

                    def end_work(self, tag):
                        super().end_work(tag)
                        if self._wear:
                            self.damage = 0       # the repair
                o = WP(name, ups, cycle_time=d['cyc'] * TICK, resources_for_processing=dict(req) if req else None)
            elif k == 'buffer':
                cap = None if d.get('cap', INF) == INF else d['cap']
                o = Buffer(name, ups, minimum_delay=d.get('delay', 0) * TICK, capacity=cap)
            elif k == 'sink':
                o = Sink(name, ups, cycle_time=d.get('cyc', 0) * TICK, collect_parts=True)
            elif k == 'gate':
                pred = PRED[d.get('pred', 'all')]
                o = DecisionGate(name, ups, decider_override=lambda g, p, pred=pred: pred(p))
            elif k == 'junction':
                o = PartFlowController(name, ups)
            elif k == 'batcher':
                o = PartBatcher(name, ups, output_batch_size=(d['bsize'] if d.get('bsize', 0) > 0 else None))
            elif k == 'ginput':
                # the group over the member devices created before; its pseudo-devices get this and the next id
                g = Group(name, [self.dev[m] for m in d['members']],
                          input_override=[self.dev[m] for m in d['inputs']],
                          output_override=[self.dev[m] for m in d['outputs']])
                self.groups[d['id']] = g
                o = g._input_device
            elif k == 'goutput':
                o = self.groups[d['id'] - 1]._output_device
            elif k == 'gpath':
                o = self.groups[d['gin']].get_new_group_path(name, ups)
            else:
                raise ValueError(k)
            if o is not None:
                self.dev[d['id']] = o
                self.by_asset[o.id] = d['id']
                o._vid = d['id']
                o._vkind = k
                self.names[str(o.name)] = 'd%d' % d['id']
                self._callbacks(o, d)
        shared[:] = []
        kinds = {x['id']: x['kind'] for x in cfg['devs']}
        for d in cfg['devs']:
            # devices whose upstream is a group input were connected by the group itself
            if d.get('late') and d['kind'] not in ('ginput', 'goutput') \
                    and not any(kinds[u] == 'ginput' for u in d['ups']):
                self.dev[d['id']].set_upstream([self.dev[u] for u in d['ups']])
        self.maint = None
        if any(c.get('call') == 'workorder' for c in cfg.get('script') or []) or any(d.get('thr') for d in cfg['devs']):
            c = cfg.get('maintcap', INF)
            self.maint = Maintainer('mt', capacity=float('inf') if c == INF else c)
            self.by_asset[self.maint.id] = -1000

        # operating schedules: created after the devices (so they are initialised after them)
        from simprocesd.model.factory_floor import ActionScheduler
        self.scheds = []
        for i, sc in enumerate(cfg.get('scheds') or []):
            a = ActionScheduler([(d_ * TICK, st) for d_, st in sc['tt']], name='sch%d' % (i + 1), is_cyclical=sc['cyc'])
            for t in sc['targets']:
                a.register_object(self.dev[t], lambda sch, obj, time, st: setattr(obj, 'block_input', st == 'off'))
            self.scheds.append(a)
            self.by_asset[a.id] = -2000 - (i + 1)

        # sensors and the condition-monitoring system: created last (initialised after everything else)
        from simprocesd.model.sensors import OutputPartSensor, PeriodicSensor, AttributeProbe
        from simprocesd.model.cms import Cms
        self.sensors = {}
        model = self

        class FloorCms(Cms):
            """requests a work order (tag x) for the machine when a reading reaches its threshold"""

            def on_sense(self, sensor, time, data):
                did, which = sensor._vdev, sensor._vwhich
                tr.occ_sense('cms', did, which, data, time, None)
                thr = model.cfg['devs'][did - 1].get('thr', 0)
                if thr and data[0] >= thr:
                    self.maintainer.create_work_order(model.dev[did], 'x')
        made = []
        for d in cfg['devs']:
            if d['kind'] != 'processor':
                continue
            cap = float('inf') if d.get('scap', INF) == INF else d['scap']
            if d.get('sint', -1) >= 0:
                s = OutputPartSensor(self.dev[d['id']], [AttributeProbe('quality', None)], sensing_interval=d['sint'],
                                     name='sn%d' % d['id'], data_capacity=cap)
                made.append((s, d['id'], 0))
            if d.get('pint', 0) > 0:
                s = PeriodicSensor(d['pint'] * TICK, [AttributeProbe('damage', self.dev[d['id']])], name='sn%d' % d['id'],
                                   data_capacity=cap)
                made.append((s, d['id'], 1))
        self.cms = FloorCms(self.maint, 'cms') if made else None
        for s, did, which in made:
            s._vdev, s._vwhich = did, which
            self.sensors[(did, which)] = s
            self.by_asset[s.id] = (-3000 if which == 0 else -4000) - did
            # the tracer's own on-sense callback is registered first, the monitoring system second
            s.add_on_sense_callback(lambda sensor, time, data, did=did, which=which: tr.occ_sense('sense', did, which, data, time, sensor))
            self.cms.add_sensor(s)
        if self.cms is not None:
            self.by_asset[self.cms.id] = -5000

    def _callbacks(self, o, d):
        """Public callbacks: the tracer's own observation of occurrences, plus the configuration's
        per-part effects (value added, quality set, cycle-time changes)."""
        from simprocesd.model.factory_floor import PartHandler, PartProcessor
        tr = self.tr
        k = d['kind']
        if isinstance(o, PartHandler):
            def on_receive(h, part, d=d):
                if k == 'processor' and d.get('cycmod'):
                    # the documented rule: a change made here applies to the part that triggered it
                    h.cycle_time = (d['cyc'] + (part._vseq % d['cycmod'])) * TICK
                if d.get('offmod') and part._vseq % 2 == 0:
                    h.offset_next_cycle_time(d['offmod'] * TICK)
                if d.get('offmod2') and part._vseq % 2 == 0:
                    h.offset_next_cycle_time(d['offmod2'] * TICK)      # a second call: offsets are cumulative
                tr.occ('recv', d['id'], part, h)
                if k == 'sink' and d.get('vadd'):
                    # a receive callback of the sink that changes the part afterwards: the sink is credited
                    # with the value at receipt
                    for lf in leaves(part):
                        lf.add_value('sinkmark', d['vadd'])
            o.add_receive_part_callback(on_receive)
        if isinstance(o, PartProcessor):
            def on_finish(m, part, d=d):
                if d.get('vadd'):
                    for lf in leaves(part):
                        lf.add_value('proc', d['vadd'])
                if d.get('qset'):
                    for lf in leaves(part):
                        lf.quality = 1 + (lf._vseq % d['qset'])
                elif d.get('qinc'):
                    for lf in leaves(part):
                        lf.quality += 1
                if d.get('wear'):
                    m.damage += d['wear']           # the machine wears; the part's quality shows it
                    for lf in leaves(part):
                        lf.quality = m.damage
                if d.get('foff'):
                    m.offset_next_cycle_time(d['foff'] * TICK)
                tr.occ('prod', d['id'], part, m)
            o.add_finish_processing_callback(on_finish)
            for i in (1, 2, 3):
                o.add_shutdown_callback(lambda m, is_fail, part, i=i, d=d: tr.occ_shutdown(d['id'], i, is_fail, part))
                o.add_restored_callback(lambda m, i=i, d=d: tr.occ_restored(d['id'], i))


class TieShim:
    """Replaces the `random` module seen by simprocesd.model.simulation: tie-break weights are drawn
    from a seeded stream (the harness may additionally reorder the head tie group before a step)."""

    def __init__(self):
        self.rng = _pyrandom.Random(0)

    def seed(self, s):
        self.rng = _pyrandom.Random(s)

    def random(self):
        return self.rng.random()

    def __getattr__(self, name):
        return getattr(_pyrandom, name)


_shim = TieShim()
_installed = [False]


def install_shim():
    import simprocesd.model.simulation as sim
    if not _installed[0]:
        sim.random = _shim
        _installed[0] = True
    return _shim
