"""C14: reproducibility, split runs, multi-process runs.  SplitMC.tla (design) + Equiv.tla (recorded pairs)."""
import json
import time

from . import common as C
from . import pipeline as P
from . import floor_cfg as F

TIERS = {'quick': dict(ncfg=140, multi=[(3, 0), (3, 1), (5, 2), (3, 4), (3, None), (1, 2), (12, 2), (11, 1)], design='SplitMC.cfg'),
         'thorough': dict(ncfg=1500, multi=[(n, mp) for n in (1, 3, 5, 12, 23) for mp in (0, 1, 2, 4, None)],
                          design='SplitMC_thorough.cfg')}


def canon(line):
    return json.dumps({'ev': line['ev'], 'st': line['st']}, sort_keys=True)


def strip_runs(lines):
    """Leaves out TERMINATE dispatches and run boundaries (for the split-run comparison)."""
    out = []
    for ln in lines:
        ev = ln['ev']
        if ev['op'] in ('run_begin', 'run_end', 'cfg', 'init'):
            if ev['op'] != 'init':
                continue
            ev = {'op': 'init'}
        if ev.get('kind') == 'term':
            continue
        st = dict(ln['st'])
        st['q'] = [e for e in st['q'] if e[3] != 'term']
        out.append({'ev': ev, 'st': st})
    return out


class _Junk:
    """objects of about the size of the library's own, kept alive to move later allocations elsewhere"""

    def __init__(self, i):
        self.i = i
        self.more = [i]


def _pair(job):
    from . import floor_tracer as T
    tid, what, cfg, seed, arg = job
    pairs = []
    if what == 'sameseed':
        # default device names (they contain the asset id), so that nothing but the ids differs between the runs
        cfg = dict(cfg, noname=True)
        a, ea = T.run_cfg(tid, cfg, seed, id_offset=100000)
        la = [{'ev': x['ev'], 'st': x['st']} for x in a]
        # nor may the result depend on where objects happen to live in memory: the repeat runs are made after
        # unrelated allocations (more of them for the families that rebuild collections while running)
        keep = []
        reps = 4 if cfg.get('family', '').startswith('rewire') else 1
        err = ea
        for r in range(reps):
            keep.append([_Junk(i) for i in range((arg + 7 * r) % 23 + 3 * r + 1)])
            b, eb = T.run_cfg(tid, cfg, seed, id_offset=arg + r)
            err = err or eb
            pairs.append((la, [{'ev': x['ev'], 'st': x['st']} for x in b]))
    else:
        one = dict(cfg, splits=[])
        two = dict(cfg, splits=arg)
        a, ea = T.run_cfg(tid, one, seed, fixed=seed + 1)
        b, eb = T.run_cfg(tid, two, seed, fixed=seed + 1)
        err = ea or eb
        pairs.append((strip_runs(a), strip_runs(b)))
    lines = []
    for la, lb in pairs:
        n = max(len(la), len(lb))
        for k in range(n):
            sa = json.dumps(la[k], sort_keys=True) if k < len(la) else ''
            sb = json.dumps(lb[k], sort_keys=True) if k < len(lb) else ''
            lines.append({'tid': tid, 'k': len(lines), 'ev': {'what': what, 'na': len(la), 'nb': len(lb)}, 'a': sa, 'b': sb})
    return lines, err


def _multi(tid0, n, mp, seed, horizon=12):
    from simprocesd.model import System
    from . import equiv_models as M
    systems = System.simulate_multiple_times(M.sim_model, n, mp, seed, horizon)
    lines = []
    for pos in range(max(n, len(systems))):
        ref = System._simulation_helper(M.sim_model, pos, seed, horizon)
        sb = json.dumps(M.summary(ref), sort_keys=True, default=str)
        sa = json.dumps(M.summary(systems[pos]), sort_keys=True, default=str) if pos < len(systems) else ''
        # which index a returned system was built for is observable: the value of parts of source s1 is 1 + index
        try:
            idx = int(systems[pos].find_assets(name='s1')[0]._part_generator.value) - 1
        except Exception:
            idx = -1
        lines.append({'tid': tid0, 'k': pos, 'ev': {'what': 'multi', 'n': n, 'returned': len(systems), 'pos': pos,
                                                    'index': idx, 'mp': -1 if mp is None else mp}, 'a': sa, 'b': sb})
    return lines


def _pipeline(tier):
    t0 = time.time()
    T = TIERS[tier]
    stage = C.stage_specs(C.scratch('equiv'))
    d = P.design_check(stage, 'SplitMC', T['design'], timeout=1500)
    res = {'design': {'states': d.distinct, 'transitions': d.generated, 'depth': d.depth, 'wall': round(d.wall, 1),
                      'cfg': T['design'],
                      'what': 'SplitMC: run(a);run(b) and run(a+b) of the kernel specification with a fixed tie-break '
                              'choice function execute the same actions at the same times and leave the same events'}}
    cfgs = [c for c in F.quick_family(C.seed(), 1 if tier == 'quick' else 4)
            if not c['splits'] and not c.get('family', '').startswith('serial')]
    import random
    rng = random.Random(C.seed() + 99)
    rng.shuffle(cfgs)
    # groups (their input / output lists are built from caller-supplied collections) always take part
    first = ('groups', 'rewire')      # collections supplied by the caller / rebuilt while running: always take part
    cfgs = [c for c in cfgs if c.get('family', '').startswith(first)] + [c for c in cfgs if not c.get('family', '').startswith(first)]
    cfgs = cfgs[:T['ncfg']]
    jobs = []
    for c in cfgs:
        off = rng.choice([7, 8, 9, 97, 98, 99, 998, 9998])
        merges = [sorted(d['ups']) for d in c['devs'] if len(d['ups']) >= 2 and d['kind'] not in ('ginput', 'goutput')]
        if merges and merges[0][0] <= 9 and len(jobs) % 4 < 2:
            # the asset ids of the first two upstream devices of a merge straddle 9 | 10 (default names sort differently)
            off = 9 - merges[0][0]
        jobs.append((len(jobs) + 1, 'sameseed', c, C.seed() * 31 + c['cid'], off))
        H = c['horizon']
        cuts = sorted(set(rng.sample(range(1, H), rng.choice([1, 2]))))
        jobs.append((len(jobs) + 1, 'split', c, C.seed() * 31 + c['cid'], cuts))
    out = C.parallel_map(_pair, jobs)
    traces = [o[0] for o in out]
    errs = [(j[0], o[1]) for j, o in zip(jobs, out) if o[1]]
    scen = {j[0]: {'what': j[1], 'cfg': j[2], 'seed': j[3], 'arg': j[4]} for j in jobs}
    base = len(jobs)
    nm = 0
    for i, (n, mp) in enumerate(T['multi']):
        tid = base + i + 1
        traces.append(_multi(tid, n, mp, C.seed() + 5))
        scen[tid] = {'what': 'multi', 'n': n, 'max_processes': mp}
        nm += 1
    fails, nlines, wall = P.validate_traces(stage, 'Equiv', 'Equiv.cfg', traces)
    vio = []
    seen = set()
    for tid, k, clause in sorted(fails):
        if (tid, clause) in seen:
            continue
        seen.add((tid, clause))
        if len(vio) < 60:
            vio.append({'tid': tid, 'k': k, 'clause': clause, 'scenario': scen[tid]})
    res.update(traces=len(traces), lines=nlines, pairs={'sameseed': len(cfgs), 'split': len(cfgs), 'multi': nm},
               violations=vio, n_violations=len(seen), driver_errors=[e for e in errs[:5]],
               samples=[{'what': 'split', 'cuts': jobs[1][4], 'cfg': jobs[1][2]}, {'multi': T['multi'][:3]}],
               wall=round(time.time() - t0, 1))
    return res


def run(prop, tier):
    t0 = time.time()
    res = P.cached('equiv', tier, lambda: _pipeline(tier))
    v = C.Verdict(prop)
    for x in res['violations']:
        v.add(key='C14:%s' % x['clause'].split('.', 1)[1], clause=x['clause'],
              what='%s pair %d differs at step %d' % (x['scenario']['what'], x['tid'], x['k']),
              replay={'pipeline': 'equiv', 'scenario': x['scenario']})
    lines, rc = v.finish()
    cov = {'states': res['design']['states'], 'transitions': res['design']['transitions'],
           'traces_validated_against_impl': res['traces'], 'samples': res['samples'], 'exhaustive': True,
           'design': res['design'], 'impl_trace_lines': res['lines'], 'pairs': res['pairs'],
           'driver_errors': res['driver_errors'], 'from_cache': res['from_cache'],
           'rule': 'design: TLC exhaustive over SplitMC; code: for every configuration of the tie-dependent scenario families a '
                   'same-seed pair (second run after advancing the global asset-id counter) and a split-run pair (tie-break '
                   'choices held fixed) are recorded step by step and TLC checks that the paired steps are equal; '
                   'simulate_multiple_times is run with several process counts and each returned system is compared with '
                   'the in-process run of its index'}
    C.write_evidence(prop, tier, cov, time.time() - t0 if not res['from_cache'] else res['wall'], len(v.unlisted),
                     ['asset ids are replaced by creation-order numbers before comparison',
                      'tie-break choices are held fixed by assigning weights by creation index among non-TERMINATE events',
                      'process-level behaviour is observed only through the returned System objects'])
    return lines, rc


def replay(sc):
    s = sc['scenario']
    if s['what'] == 'multi':
        lines = _multi(1, s['n'], s['max_processes'], C.seed() + 5)
    else:
        lines, _ = _pair((1, s['what'], s['cfg'], s['seed'], s['arg']))
    stage = C.stage_specs(C.scratch('equiv_replay'))
    fails, n, _ = P.validate_traces(stage, 'Equiv', 'Equiv.cfg', [lines], shards=1)
    return fails, None
