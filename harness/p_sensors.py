"""C19: sensors and the condition-monitoring system.  Sensors.tla + SensorsMC + SensorsTrace."""
from .component import Component

COMP = Component(
    name='sensors', mc='SensorsMC', trace='SensorsTrace', driver='sensors_driver',
    tiers={
        'quick': dict(design_cfg='SensorsMC_small.cfg', sim_num=2400, sim_depth=60, seeds_per_behaviour=1,
                      rnd_num=2000, rnd_len=25, design_timeout=900),
        'thorough': dict(design_cfg='SensorsMC_thorough.cfg', sim_num=10000, sim_depth=90, seeds_per_behaviour=1,
                         rnd_num=10000, rnd_len=50, design_timeout=3000),
    },
    rule='design: TLC exhaustive over SensorsMC within the cfg bounds (intervals, capacities, sensing intervals, changes of the '
         'probed object, callbacks and the monitoring system added before and between runs); code: every TLC -simulate behaviour and '
         'seeded random scripts (with failures of the observed processor and non-grid intervals such as 0.1) executed on the real '
         'PeriodicSensor / OutputPartSensor / Cms + System with a real line; each recorded call and dispatched event validated by '
         'TLC against SensorsTrace.tla',
    assumptions=['grid traces use multiples of 0.25 time units; for non-grid intervals the tracer computes whether the k-th '
                 'measurement time equals the k-fold repeated float addition exactly and TLC checks that boolean',
                 'sensor state is projected from the public data / last_sense / probes, the calls seen by the registered callbacks '
                 'and a wrapper around the public sense(); probed values are integers and lists of integers',
                 'the part sensor is observed on M1 of a real line source -> M1 -> M2 -> sink; M2 mutates the measured list later'])


def run(prop, tier):
    return COMP.run(prop, tier, crash_clause='C19.LibraryRaised', floor_clauses=True)


def replay(sc):
    return COMP.replay(sc)
