"""C01 / C07: the event queue.  Kernel.tla + KernelMC (design) + KernelTrace (real-code traces)."""
import json
import random
import time

from . import common as C
from . import pipeline as P
from .kernel_params import bodies_module

TIERS = {
    'quick': dict(design_cfg='KernelMC_small.cfg', sim_num=3200, sim_depth=30, rnd_num=1500, rnd_len=25,
                  design_timeout=600),
    'thorough': dict(design_cfg='KernelMC_thorough.cfg', sim_num=24000, sim_depth=40, rnd_num=16000, rnd_len=40,
                     design_timeout=3000),
}


def _replay(job):
    from . import kernel_driver as D
    tid, ops, forced, seed = job
    lines, div, err = D.run_sequence(tid, ops, forced=forced, seed=seed)
    return lines, div, err


def _random_job(job):
    from . import kernel_driver as D
    tid, seed, n = job
    rng = random.Random(seed)
    ops = [{'op': 'run', 'd': rng.choice([1, 3])}] + D.random_ops(rng, n)
    lines, div, err = D.run_sequence(tid, ops, forced=False, seed=seed)
    return lines, 0, err, ops


def _float_job(job):
    from . import kernel_float as KF
    return KF.run(*job)


def _pipeline(tier):
    cfg = TIERS[tier]
    t0 = time.time()
    stage = C.stage_specs(C.scratch('kernel'), {'KernelBodies.tla': bodies_module()})
    res = {'tier': tier}
    # 1. design level: every interleaving and tie-break within the bounds
    d = P.design_check(stage, 'KernelMC', cfg['design_cfg'], timeout=cfg['design_timeout'])
    res['design'] = {'states': d.distinct, 'transitions': d.generated, 'depth': d.depth, 'wall': round(d.wall, 1),
                     'cfg': cfg['design_cfg']}
    # 2. behaviours of the specification, replayed on the real Environment with forced tie-breaks
    hists, gen = P.simulate_behaviours(stage, 'KernelMC', 'KernelMC_gen.cfg', cfg['sim_num'], cfg['sim_depth'],
                                       C.seed())
    res['sim_states'] = gen
    jobs = [(i + 1, h, True, C.seed()) for i, h in enumerate(hists)]
    out = C.parallel_map(_replay, jobs)
    traces = [o[0] for o in out]
    scen = {j[0]: {'kind': 'tlc-behaviour', 'ops': j[1]} for j in jobs}
    res['spec_divergences'] = sum(o[1] for o in out)
    errs = [(j[0], o[2]) for j, o in zip(jobs, out) if o[2]]
    # 3. longer random sequences with the library's own tie-break policy (seeded)
    base = len(jobs)
    rjobs = [(base + i + 1, C.seed() * 1000003 + i, cfg['rnd_len']) for i in range(cfg['rnd_num'])]
    rout = C.parallel_map(_random_job, rjobs)
    for j, o in zip(rjobs, rout):
        traces.append(o[0])
        scen[j[0]] = {'kind': 'random', 'ops': o[3], 'seed': j[1]}
        if o[2]:
            errs.append((j[0], o[2]))
    # 4. TLC validates every recorded line against Kernel.tla
    fails, nlines, wall = P.validate_traces(stage, 'KernelTrace', 'KernelTrace.cfg', traces)
    res['traces'] = len(traces)
    res['lines'] = nlines
    res['validate_wall'] = round(wall, 1)
    ops_count = {}
    for t in traces:
        for ln in t:
            ops_count[ln['ev']['op']] = ops_count.get(ln['ev']['op'], 0) + 1
    res['exercised'] = ops_count
    by_trace = {}
    for tid, k, clause in fails:
        by_trace.setdefault(tid, []).append((k, clause))
    vio = []
    for tid, fl in sorted(by_trace.items()):
        fl.sort()
        seen = set()
        for k, clause in fl:
            if clause in seen:
                continue
            seen.add(clause)
            vio.append({'tid': tid, 'k': k, 'clause': clause, 'scenario': scen[tid]})
    # an exception escaping a kernel call that the specification accepts is a C01 observation
    for tid, err in errs:
        vio.append({'tid': tid, 'k': -1, 'clause': 'C01.Exception', 'scenario': dict(scen[tid], error=err)})
    # 5. off the exact grid: nearly equal float times (KernelFloat.tla)
    fjobs = [(len(traces) + i + 1, C.seed() * 9973 + i) for i in range(400 if tier == 'quick' else 8000)]
    ftraces = C.parallel_map(_float_job, fjobs)
    ffails, fl, _ = P.validate_traces(stage, 'KernelFloat', 'KernelFloat.cfg', ftraces)
    res['float_runs'] = len(fjobs)
    res['float_lines'] = fl
    seenf = set()
    for tid, k, clause in sorted(ffails):
        if clause in seenf:
            continue
        seenf.add(clause)
        vio.append({'tid': tid, 'k': k, 'clause': clause,
                    'scenario': {'kind': 'float', 'ops': None, 'seed': dict(fjobs)[tid]}})
    res['violations'] = vio[:400]
    res['n_violations'] = len(vio)
    res['samples'] = [scen[1]['ops'] if 1 in scen else None, scen[base + 1]['ops'][:12] if rjobs else None]
    res['wall'] = round(time.time() - t0, 1)
    return res


def run(prop, tier):
    t0 = time.time()
    res = P.cached('kernel', tier, lambda: _pipeline(tier))
    v = C.Verdict(prop)
    for x in res['violations']:
        if not x['clause'].startswith(prop + '.'):
            continue
        v.add(key='%s:%s' % (prop, x['clause'].split('.', 1)[1]), clause=x['clause'],
              what='trace %d line %d fails %s' % (x['tid'], x['k'], x['clause']),
              replay={'pipeline': 'kernel', 'ops': x['scenario'].get('ops'), 'kind': x['scenario'].get('kind'),
                      'seed': x['scenario'].get('seed'), 'line': x['k'], 'error': x['scenario'].get('error')})
    floor_lines = 0
    if prop == 'C01':
        # "every model assembled from the library's devices": the dispatch clauses are also evaluated on
        # every step of the factory-floor traces (FloorObs.tla, clauses C01.Floor*)
        from . import p_floor
        fres = p_floor.result(tier)
        floor_lines = fres['lines']
        for x in fres['violations']:
            if x['clause'].startswith('C01.'):
                v.add(key='C01:%s' % x['clause'].split('.', 1)[1], clause=x['clause'],
                      what='floor configuration %d (%s) line %d fails %s' % (x['cid'], x['family'], x['k'], x['clause']),
                      replay={'pipeline': 'floor', 'cfg': x['cfg'], 'seed': x['seed'], 'line': x['k']})
    lines, rc = v.finish()
    mine = {'C01': ('step', 'sched', 'run_begin', 'run_end'), 'C07': ('pause', 'unpause', 'cancel')}[prop]
    cov = {
        'states': res['design']['states'], 'transitions': res['design']['transitions'],
        'traces_validated_against_impl': res['traces'],
        'samples': res['samples'],
        'exhaustive': True,
        'design': res['design'],
        'impl_trace_lines': res['lines'],
        'non_grid_runs': res.get('float_runs', 0), 'non_grid_steps': res.get('float_lines', 0),
        'floor_trace_lines_checked_for_dispatch_order': floor_lines,
        'impl_lines_of_this_property': sum(res['exercised'].get(o, 0) for o in mine),
        'exercised': res['exercised'],
        'spec_behaviours_replayed': res['traces'] - TIERS[tier]['rnd_num'],
        'spec_divergences': res['spec_divergences'],
        'simulate_states': res['sim_states'],
        'from_cache': res['from_cache'],
        'known_findings_hit': v.known_hits,
        'rule': 'design: TLC exhaustive over KernelMC within the cfg bounds (all interleavings, all tie-breaks); '
                'code: every TLC -simulate behaviour replayed on the real Environment with forced tie-break weights, '
                'plus seeded random sequences; each recorded line validated by TLC against Kernel.tla',
    }
    C.write_evidence(prop, tier, cov, time.time() - t0 if not res['from_cache'] else res['wall'],
                     len(v.unlisted),
                     ['times are integers (exact in float arithmetic)',
                      'kernel state is projected from Environment._events/_paused_events/_now/_terminated',
                      'bodies of events come from the finite program alphabet KernelBodies'])
    return lines, rc


def replay(sc):
    from . import kernel_driver as D
    if sc.get('kind') == 'float':
        from . import kernel_float as KF
        stage = C.stage_specs(C.scratch('kernel_replay'), {'KernelBodies.tla': bodies_module()})
        fails, n, _ = P.validate_traces(stage, 'KernelFloat', 'KernelFloat.cfg', [KF.run(1, sc['seed'])], shards=1)
        return fails, None
    stage = C.stage_specs(C.scratch('kernel_replay'), {'KernelBodies.tla': bodies_module()})
    lines, div, err = D.run_sequence(1, sc['ops'], forced=(sc.get('kind') == 'tlc-behaviour'), seed=sc.get('seed') or 0)
    fails, n, _ = P.validate_traces(stage, 'KernelTrace', 'KernelTrace.cfg', [lines], shards=1)
    if err:
        fails.append((1, -1, 'C01.Exception'))
    return fails, err
