"""C09 / C10 (and the resource-record clauses of C15): the resource pools.
Pools.tla + PoolsMC (design) + PoolsTrace (real-code traces)."""
import time

from . import common as C
from . import pipeline as P

TIERS = {
    'quick': dict(design_cfg='PoolsMC_small.cfg', sim_num=3200, sim_depth=40, rnd_num=2000, rnd_len=30,
                  design_timeout=600),
    'thorough': dict(design_cfg='PoolsMC_thorough.cfg', sim_num=24000, sim_depth=48, rnd_num=24000, rnd_len=60,
                     design_timeout=3000),
}

MINE = {'C09': ('add', 'reserve', 'release', 'merge', 'init'), 'C10': ('register', 'step'),
        'C15': ('add', 'reserve', 'release', 'init')}


def _replay(job):
    from . import pools_driver as D
    tid, ops = job
    return D.run_sequence(tid, ops)


def _random_job(job):
    from . import pools_driver as D
    tid, seed, n = job
    return D.run_random(tid, seed, n)


def _pipeline(tier):
    cfg = TIERS[tier]
    t0 = time.time()
    stage = C.stage_specs(C.scratch('pools'))
    res = {'tier': tier}
    d = P.design_check(stage, 'PoolsMC', cfg['design_cfg'], timeout=cfg['design_timeout'])
    res['design'] = {'states': d.distinct, 'transitions': d.generated, 'depth': d.depth, 'wall': round(d.wall, 1),
                     'cfg': cfg['design_cfg']}
    hists, gen = P.simulate_behaviours(stage, 'PoolsMC', 'PoolsMC_gen.cfg', cfg['sim_num'], cfg['sim_depth'],
                                       C.seed())
    res['sim_states'] = gen
    jobs = [(i + 1, h) for i, h in enumerate(hists)]
    out = C.parallel_map(_replay, jobs)
    traces = [o[0] for o in out]
    scen = {j[0]: {'kind': 'tlc-behaviour', 'ops': j[1]} for j in jobs}
    res['spec_outcome_divergences'] = sum(o[1] for o in out)
    errs = [(j[0], o[2]) for j, o in zip(jobs, out) if o[2]]
    base = len(jobs)
    rjobs = [(base + i + 1, C.seed() * 1000003 + i, cfg['rnd_len']) for i in range(cfg['rnd_num'])]
    rout = C.parallel_map(_random_job, rjobs)
    for j, o in zip(rjobs, rout):
        traces.append(o[0])
        scen[j[0]] = {'kind': 'random', 'ops': o[2], 'seed': j[1]}
        if o[1]:
            errs.append((j[0], o[1]))
    fails, nlines, wall = P.validate_traces(stage, 'PoolsTrace', 'PoolsTrace.cfg', traces)
    res['traces'] = len(traces)
    res['spec_behaviours'] = len(jobs)
    res['lines'] = nlines
    res['validate_wall'] = round(wall, 1)
    ops_count = {}
    ncalls = 0
    for t in traces:
        for ln in t:
            ops_count[ln['ev']['op']] = ops_count.get(ln['ev']['op'], 0) + 1
            ncalls += len(ln['ev'].get('calls', ()))
    res['exercised'] = ops_count
    res['callbacks_observed'] = ncalls
    by_trace = {}
    ndiv = 0
    for tid, k, clause in fails:
        if clause.startswith('D.'):
            ndiv += 1
            continue
        by_trace.setdefault(tid, []).append((k, clause))
    res['spec_divergences'] = ndiv
    vio = []
    for tid, fl in sorted(by_trace.items()):
        fl.sort()
        seen = set()
        for k, clause in fl:
            if clause in seen:
                continue
            seen.add(clause)
            vio.append({'tid': tid, 'k': k, 'clause': clause, 'scenario': scen[tid]})
    # an exception escaping the driver (not from a judged call) is a machinery-visible crash
    res['driver_errors'] = [{'tid': t, 'error': e, 'scenario': scen[t]} for t, e in errs[:20]]
    res['violations'] = vio[:400]
    res['n_violations'] = len(vio)
    res['samples'] = [scen[1]['ops'] if 1 in scen else None, scen[base + 1]['ops'][:12] if rjobs else None]
    res['wall'] = round(time.time() - t0, 1)
    return res


def _inductive():
    """Unbounded in the amounts: Apalache discharges the inductive invariant of spec/apalache/PoolsInd.tla
    (base case from Init, one step from an arbitrary state satisfying the invariant).  Additional to the TLC
    results, thorough tier only; a failure here is a defect of the specification (machinery failure)."""
    import os
    import shutil
    import subprocess
    import time as _t
    stage = C.scratch('pools_apalache')
    shutil.copy(os.path.join(C.SPEC, 'apalache', 'PoolsInd.tla'), stage)
    out = {}
    for name, args in (('base', ['--init=Init', '--length=0']), ('step', ['--init=IndInit', '--length=1'])):
        t0 = _t.time()
        p = subprocess.run(['apalache-mc', 'check'] + args + ['--inv=IndInv', '--out-dir=' + os.path.join(stage, 'out'),
                                                              'PoolsInd.tla'], cwd=stage, capture_output=True, text=True, timeout=1200)
        ok = 'EXITCODE: OK' in p.stdout
        out[name] = {'ok': ok, 'wall': round(_t.time() - t0, 1)}
        if not ok:
            raise C.MachineryError('Apalache did not discharge the %s case of PoolsInd:\n%s' % (name, p.stdout[-1500:]))
    return out


def result(tier):
    return P.cached('pools', tier, lambda: _pipeline(tier))


def run(prop, tier):
    t0 = time.time()
    res = result(tier)
    if res['driver_errors']:
        raise C.MachineryError('pool driver crashed: %r' % (res['driver_errors'][0],))
    v = C.Verdict(prop)
    for x in res['violations']:
        if not x['clause'].startswith(prop + '.'):
            continue
        v.add(key='%s:%s' % (prop, x['clause'].split('.', 1)[1]), clause=x['clause'],
              what='trace %d line %d fails %s' % (x['tid'], x['k'], x['clause']),
              replay={'pipeline': 'pools', 'ops': x['scenario'].get('ops'), 'kind': x['scenario'].get('kind'),
                      'seed': x['scenario'].get('seed'), 'line': x['k']})
    lines, rc = v.finish()
    cov = {
        'states': res['design']['states'], 'transitions': res['design']['transitions'],
        'traces_validated_against_impl': res['traces'],
        'samples': res['samples'],
        'exhaustive': True,
        'design': res['design'],
        'impl_trace_lines': res['lines'],
        'impl_lines_of_this_property': sum(res['exercised'].get(o, 0) for o in MINE[prop]),
        'exercised': res['exercised'],
        'callbacks_observed': res['callbacks_observed'],
        'spec_behaviours_replayed': res['spec_behaviours'],
        'spec_divergences': res['spec_divergences'] + res['spec_outcome_divergences'],
        'simulate_states': res['sim_states'],
        'from_cache': res['from_cache'],
        'known_findings_hit': v.known_hits,
        'rule': 'design: TLC exhaustive over PoolsMC within the cfg bounds (every sequence of add/init/reserve/release/'
                'merge/register/run, callbacks from the program alphabet); code: every TLC -simulate behaviour and seeded '
                'random sequences executed on the real ResourceManager + Environment; each recorded call and dispatched '
                'event validated by TLC against the relations of PoolsTrace.tla on the logged pre-state',
    }
    if tier == 'thorough' and prop == 'C09':
        cov['apalache_inductive_invariant'] = P.cached('pools_apalache', tier, _inductive)
    C.write_evidence(prop, tier, cov, time.time() - t0 if not res['from_cache'] else res['wall'],
                     len(v.unlisted),
                     ['amounts and times are integers (exact in float arithmetic)',
                      'pool state is projected from ResourceManager._resources/_waiting_requests and the public '
                      'ReservedResources.reserved_resources',
                      'callbacks come from the finite program alphabet of Pools.tla (RunCb)',
                      'merging a reservation into itself is outside the property (distinct reservations)'])
    return lines, rc


def replay(sc):
    from . import pools_driver as D
    stage = C.stage_specs(C.scratch('pools_replay'))
    if sc.get('kind') == 'random' and sc.get('seed') is not None and not sc.get('ops'):
        lines, err, _ = D.run_random(1, sc['seed'], 30)
    else:
        lines, _, err = D.run_sequence(1, sc['ops'])
    fails, n, _ = P.validate_traces(stage, 'PoolsTrace', 'PoolsTrace.cfg', [lines], shards=1)
    return [f for f in fails if not f[2].startswith('D.')], err
