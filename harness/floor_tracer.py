"""Runs a floor configuration on the real package and records one trace line per dispatched event and
per scripted call: the event / call, what was observed through public callbacks and the recorded
datapoints while it ran, and the complete projected state after it (FloorTrace.tla validates the
lines; the closed specification Floor.tla produces states of the same shape).

No source changes: Environment.step is wrapped on the instance, Part.__init__ on the class (creation
order = part ids), the `random` module seen by the kernel is replaced by a shim (tie-breaks).
"""
import copy

from . import floor_build as B

TICK = B.TICK
SCRIPT = -2          # asset id of scripted calls
_state = {'cur': None, 'installed': False}

KIND_BY_ACTION = {'_finish_cycle': 'finish', '_pass_part_downstream': 'pass', '_release_resources_if_idle': 'release',
                  '_fail': 'fail', '_check_pending_requests': 'check', '_terminate': 'term',
                  '_start_work_order': 'mstart', '_finish_work_order': 'mfinish',
                  'restore_functionality': 'restore', '_update_state': 'sched', '_periodic_sense': 'psense'}


def install():
    if _state['installed']:
        return
    from simprocesd.model.factory_floor.part import Part
    orig = Part.__init__

    def init(self, *a, **kw):
        orig(self, *a, **kw)
        cur = _state['cur']
        if cur is not None:
            cur.new_part(self)
    Part.__init__ = init
    B.install_shim()
    import simprocesd.model.simulation as sim
    ev_init = sim.Event.__init__

    def einit(self, *a, **kw):
        ev_init(self, *a, **kw)
        cur = _state['cur']
        if cur is not None and cur.fixed is not None:
            # tie-break choices held fixed: the weight depends on the creation index among the
            # non-TERMINATE events only, so splitting a run does not shift the choices
            if self.asset_id == -1 and getattr(self.action, '__name__', '') == '_terminate':
                self.random_weight = 0.5
            else:
                cur.nfix += 1
                self.random_weight = _fixed_weight(cur.fixed, cur.nfix)
    sim.Event.__init__ = einit
    _state['installed'] = True


def _fixed_weight(seed, i):
    import random
    return random.Random(seed * 1000003 + i).random()


def tk(x, what='time'):
    """float time -> ticks, exact."""
    if x is None:
        return -1
    if x == float('inf'):
        return -1
    v = x / TICK
    if v != int(v):
        raise ValueError('%s off the tick grid: %r' % (what, x))
    return int(v)


def num(x):
    if x == float('inf'):
        return -1
    if x != int(x):
        raise ValueError('non-integer quantity %r' % (x,))
    return int(x)


class ScriptAct:
    def __init__(self, tr, idx, call):
        self.tr, self.idx, self.call = tr, idx, call
        self.__name__ = 'script_%s' % call['call']

    def __call__(self):
        self.tr.do_call(self.call)


class FloorTracer:
    def __init__(self, tid, cfg, seed=0, light=False, fixed=None, id_offset=0):
        install()
        import simprocesd.model.simulation as sim
        from simprocesd.model.factory_floor import Batch, Part
        self.sim = sim
        self.Batch, self.Part = Batch, Part
        _state['cur'] = self
        self.fixed = fixed
        self.nfix = 0
        if id_offset:
            # C14: the global asset-id counter is put at a chosen value (how many assets were created before)
            from simprocesd.model.factory_floor.asset import Asset
            Asset._id_counter = id_offset
        B._shim.seed(seed)
        self.tid = tid
        self.cfg = cfg
        self.parts = []          # every Part object in creation order (pid = index + 1)
        self.nleaf = 0
        self.occs = []
        self.sdlog = []          # shutdown / restored callback log of the current step
        self.nsense = {}
        self.lost = []           # [dev, pid] reported through shutdown callbacks (callback 1 only)
        self.lines = []
        self.k = 0
        self.light = light
        self.m = B.Model(cfg, self)
        self.env = self.m.env
        self.nrec = {}
        self.arrival = {}
        self.nvh = {}
        self.started = False
        self.steps_at_now = 0
        self.pending_begin = None
        self.pending_script = []
        self.force = None        # callable(list of head-group events) -> chosen event, for replayed behaviours
        self._wrap_step()
        for i, c in enumerate(cfg.get('script') or []):
            if c.get('pre'):
                self.do_call(c)
        self.log({'op': 'cfg'}, cfgline=True)

    # -- parts ---------------------------------------------------------------------------------
    def new_part(self, p):
        self.parts.append(p)
        p._vpid = len(self.parts)
        if not isinstance(p, self.Batch):
            self.nleaf += 1
            p._vseq = self.nleaf
        else:
            p._vseq = 0

    def pid(self, p):
        return 0 if p is None else getattr(p, '_vpid', -1)

    # -- observations through public callbacks ----------------------------------------------------
    def occ(self, kind, dev, part, h):
        ent = [kind, dev, self.pid(part), num(part.quality), num(part.value)]
        if kind == 'recv':
            self.arrival[(dev, self.pid(part))] = tk(self.env.now)      # when a buffer received the item (observed)
        if kind == 'recv':
            # the cycle time and offset in force for this part (this callback is registered last)
            ent += [tk(h.cycle_time, 'cycle'), tk(h._next_cycle_time_offset, 'offset')]
        else:
            ent += [0, 0]
        self.occs.append(ent)

    def occ_sense(self, kind, dev, which, data, time, sensor):
        """on-sense callbacks: the tracer's own (kind 'sense', registered first) and the monitoring system's
        (kind 'cms'); entry = [kind, dev, number of values, which sensor, first value, time given, 0]"""
        self.occs.append([kind, dev, len(data), which, num(data[0]), tk(time), 0])
        if kind == 'sense':
            self.nsense[(dev, which)] = self.nsense.get((dev, which), 0) + 1

    def occ_shutdown(self, dev, i, is_fail, part):
        self.sdlog.append(['down', dev, i, bool(is_fail), self.pid(part)])
        if i == 1 and part is not None:
            self.lost.append([dev, self.pid(part)])

    def occ_restored(self, dev, i):
        self.sdlog.append(['up', dev, i, False, 0])

    # -- projection --------------------------------------------------------------------------------
    def proj_dev(self, d, o):
        k = d['kind']
        out = {'kind': k, 'blocked': bool(o.block_input), 'value': num(o.value), 'nvh': len(o.value_history)}
        if k in ('gate', 'gpath', 'junction', 'ginput', 'goutput'):
            return out
        out.update(inp=self.pid(o._part), out=self.pid(o._output), wds=bool(o._waiting_for_downstream_space),
                   wsince=tk(o.waiting_for_part_start_time), off=tk(o._next_cycle_time_offset, 'offset'))
        if k == 'processor':
            rr = o._reserved_resources
            out.update(down=not o.is_operational(), held=bool(rr is not None),
                       wres=bool(o._waiting_for_resources),
                       up=tk(o.uptime, 'uptime') if o.env is not None else 0,
                       ut=tk(o.utilization_time, 'util') if o.env is not None else 0)
            out['damage'] = num(getattr(o, 'damage', 0))
            so, sp = self.m.sensors.get((d['id'], 0)), self.m.sensors.get((d['id'], 1))
            if so is not None:       # the public per-probe series
                out.update(sdata=[num(x) for x in so.data[so.probes[0]]], sn=self.nsense.get((d['id'], 0), 0))
            if sp is not None:
                out.update(pdata=[num(x) for x in sp.data[sp.probes[0]]], ptime=[tk(x) for x in sp.data.get('time', [])],
                           pn=self.nsense.get((d['id'], 1), 0))
        elif k == 'buffer':
            # content and order from the public stored_parts, arrival times as observed by the receive callback
            out.update(buf=[[self.arrival.get((d['id'], self.pid(p)), -1), self.pid(p)] for p in o.stored_parts],
                       level=num(o.level()))
        elif k == 'batcher':
            ip = o._in_progress_batch
            out.update(inprog=[self.pid(p) for p in ip.parts] if ip is not None else [], ipb=self.pid(ip))
        elif k == 'source':
            out.update(supplied=num(o.produced_parts), budget=num(o._max_produced_parts), cost=num(o.cost_of_produced_parts),
                       remaining=num(o.remaining_parts))
        elif k == 'sink':
            out.update(count=num(o.received_parts_count), collected=[self.pid(p) for p in o.collected_parts],
                       revenue=num(o.value_of_received_parts))
        if not self.light:
            out['extra'] = self.stray(o, k)
        return out

    def stray(self, o, k):
        """Parts reachable from the device outside its known slots (a changed implementation that parks
        a part elsewhere is still counted)."""
        known = {'_part', '_output', '_buffer', '_in_progress_batch', 'collected_parts'}
        found = []

        def scan(v, depth):
            if depth > 3:
                return
            if isinstance(v, self.Part):
                found.append(self.pid(v))
            elif isinstance(v, (list, tuple)):
                for x in v:
                    scan(x, depth + 1)
        for name, v in o.__dict__.items():
            if name in known:
                continue
            scan(v, 0)
        return sorted(found)

    def proj_part(self, p):
        isb = isinstance(p, self.Batch)
        hist = [getattr(x, '_vid', 0) for x in p.routing_history]
        return {'hist': hist, 'gst': [getattr(x, '_vid', 0) for x in p._group_pathing],
                'value': num(p.value), 'quality': num(p.quality), 'batch': isb,
                'leaves': [self.pid(x) for x in p.parts] if isb else [], 'seq': p._vseq}

    def proj_event(self, e):
        a = e.action
        name = getattr(a, '__name__', None) or getattr(getattr(a, 'func', None), '__name__', '?')
        if isinstance(a, ScriptAct):
            kind = 'script'
        else:
            kind = KIND_BY_ACTION.get(name, name)
        asset = self.m.by_asset.get(e.asset_id, e.asset_id if e.asset_id < 0 else 0)
        arg = (a.idx + 1) if isinstance(a, ScriptAct) else 0
        if kind == 'sched':
            arg = -2000 - asset
        if kind == 'psense':
            arg = -4000 - asset
        if kind in ('mstart', 'mfinish'):
            req = getattr(a, 'keywords', {}).get('request')
            arg = getattr(getattr(req, 'target', None), '_vid', 0) * 10 + (1 if getattr(req, 'tag', '') == 'y' else 0)
        return [tk(e.time), int(round(e.event_type * 10)), asset, kind, bool(e.cancelled), arg]

    def project(self):
        env = self.env
        st = {'now': tk(env.now), 'dev': [], 'down': [], 'ups': [], 'q': [self.proj_event(e) for e in env._events],
              'pq': [self.proj_event(e) + [tk(e.paused_at)] for e in env._paused_events]}
        for d in self.cfg['devs']:
            o = self.m.dev[d['id']]
            st['dev'].append(self.proj_dev(d, o))
            st['down'].append([getattr(x, '_vid', 0) for x in o._downstream])
            if d['kind'] == 'ginput':
                st['ups'].append([getattr(u, '_vid', 0) for gp in o._group._group_paths for u in gp._upstream])
            else:
                st['ups'].append([getattr(x, '_vid', 0) for x in o._upstream])
        st['nleaf'] = self.nleaf
        st['inited'] = bool(self.m.system._simulation_is_initialized)
        st['part'] = [self.proj_part(p) for p in self.parts]
        st['lost'] = [list(x) for x in self.lost]
        rm = self.m.rm
        st['pool'] = {r: {'used': num(v[0]), 'cap': num(v[1])} for r, v in sorted(rm._resources.items())}
        st['waitq'] = [getattr(getattr(cb, '__self__', None), '_vid', 0) for _, cb in rm._waiting_requests]
        sd = env.simulation_data
        nm = self.m.names
        st['cnt'] = {lab: {nm.get(str(k), str(k)): len(v) for k, v in sorted(sd[lab].items(), key=lambda kv: str(kv[0]))}
                     for lab in sorted(sd)}
        lastlev = {}
        for name, lst in sd.get('level', {}).items():
            lastlev[self.m.names.get(str(name), str(name))] = num(lst[-1][1])
        st['lastlevel'] = lastlev
        lastres = {}
        for r, lst in sd.get('resource_update', {}).items():
            lastres[r] = [num(lst[-1][1]), num(lst[-1][2])]
        st['lastres'] = lastres
        mt = self.m.maint
        if mt is not None:
            sdm = env.simulation_data
            st['mt'] = {'queue': [[getattr(o.target, '_vid', 0), str(o.tag)] for o in mt._request_queue],
                        'active': [[getattr(o.target, '_vid', 0), str(o.tag)] for o in mt._active_requests],
                        'util': num(mt._utilization), 'value': num(mt.value), 'nvh': len(mt.value_history),
                        'enter': len(sdm.get('enter_queue', {}).get(mt.name, [])),
                        'start': len(sdm.get('start_work_order', {}).get(mt.name, [])),
                        'finish': len(sdm.get('finish_work_order', {}).get(mt.name, []))}
        else:
            st['mt'] = {'queue': [], 'active': [], 'util': 0, 'value': 0, 'nvh': 0, 'enter': 0, 'start': 0, 'finish': 0}
        st['sch'] = []
        for a in self.m.scheds:
            recs = sd.get('schedule_update', {}).get(a.name, [])
            st['sch'].append({'idx': (a._schedule_index + 1) if a.env is not None else 0,
                              'state': '-' if a.current_state is None else str(a.current_state), 'nrec': len(recs)})
        st['net'] = num(self.m.system.get_net_value_of_assets())
        st['mtvalue'] = num(self.m.maint.value) if self.m.maint is not None else 0
        return st

    def new_recs(self):
        """Datapoints written since the last call: [label, device, time, pid-or-x, quality-or-y, value-or-z]."""
        out = []
        sd = self.env.simulation_data
        for lab in sorted(sd):
            for name, lst in sd[lab].items():
                key = (lab, str(name))
                n0 = self.nrec.get(key, 0)
                for r in lst[n0:]:
                    row = [lab, self.m.names.get(str(name), str(name)), tk(r[0])]
                    if lab in ('received_part', 'produced_part'):
                        row += [self.pid_by_asset(r[1]), num(r[2]), num(r[3])]
                    elif lab == 'supplied_new_part':
                        row += [self.pid_by_asset(r[1]), 0, 0]
                    elif lab == 'device_failure':
                        row += [self.pid_by_asset(r[1]) if r[1] is not None else 0, 0, 0]
                    elif lab == 'level':
                        row += [num(r[1]), 0, 0]
                    elif lab == 'resource_update':
                        row += [num(r[1]), num(r[2]), 0]
                    else:
                        row += [0, 0, 0]
                    out.append(row)
                self.nrec[key] = len(lst)
        return out

    def new_vh(self):
        """Value-history entries appended since the last call: [dev, time, delta, total]."""
        out = []
        objs = [(d['id'], self.m.dev[d['id']]) for d in self.cfg['devs']]
        for did, o in objs:
            vh = o.value_history
            n0 = self.nvh.get(did, 0)
            if len(vh) < n0:
                n0 = 0
            for e in vh[n0:]:
                out.append([did, tk(e[1]), num(e[2]), num(e[3])])
            self.nvh[did] = len(vh)
        return out

    def pid_by_asset(self, aid):
        for p in reversed(self.parts):
            if p.id == aid:
                return p._vpid
        return -1

    def log(self, ev, cfgline=False):
        ev.setdefault('occ', [])
        ev.setdefault('sd', [])
        if 'recs' not in ev:
            ev['recs'] = self.new_recs() if self.k > 0 else []
        ev['vh'] = self.new_vh()
        line = {'tid': self.tid, 'k': self.k, 'ev': ev, 'st': self.project()}
        if cfgline:
            line['cfg'] = self.cfg
        self.lines.append(line)
        self.k += 1

    # -- stepping ------------------------------------------------------------------------------------
    def _wrap_step(self):
        env = self.env
        orig = env.step

        def step():
            if self.pending_begin is not None:
                ev, self.pending_begin = self.pending_begin, None
                for args in self.pending_script:       # the script is scheduled when the simulation starts
                    env.schedule_event(*args)
                self.pending_script = []
                self.log(ev)
            if self.force is not None and env._events:
                self.apply_force()
            e = env._events[0] if env._events else None
            self.occs, self.sdlog = [], []
            info = {'op': 'step', 'direct': False}
            if e is not None:
                pe = self.proj_event(e)
                info.update(time=pe[0], prio=pe[1], asset=pe[2], kind=pe[3], cancelled=pe[4], arg=pe[5])
                if isinstance(e.action, ScriptAct):
                    info['call'] = dict(e.action.call)
                info['minhead'] = self.head_is_min()
            try:
                orig()
            finally:
                info['occ'] = self.occs
                info['sd'] = self.sdlog
                info['recs'] = self.new_recs()
                self.log(info)
                self.occs, self.sdlog = [], []
        env.step = step

    def head_is_min(self):
        """C01 on floor traces: the event about to be dispatched is minimal by (time, -priority)."""
        ev = self.env._events
        h = ev[0]
        return all((h.time, -h.event_type) <= (x.time, -x.event_type) for x in ev)

    def apply_force(self):
        ev = self.env._events
        h = ev[0]
        group = [x for x in ev if x.time == h.time and x.event_type == h.event_type]
        ch = self.force(self, group)
        if ch is not None and ch is not h:
            ch.random_weight = min(x.random_weight for x in group) - 1.0
            ev.sort()

    # -- scripted calls --------------------------------------------------------------------------------
    def schedule_script(self):
        for i, c in enumerate(self.cfg.get('script') or []):
            if c.get('pre') or c.get('between'):
                continue
            self.pending_script.append((c['t'] * TICK, SCRIPT, ScriptAct(self, i, c), c.get('prio', 20) / 10.0))

    def do_call(self, c):
        m = self.m
        call = c['call']
        o = m.dev.get(c.get('dev'))
        if call == 'fail':
            o.schedule_failure(self.env.now + c.get('arg', 0) * TICK)
        elif call == 'shutdown':
            o.shutdown()
        elif call == 'restore':
            o.restore_functionality()
        elif call == 'block':
            o.block_input = True
        elif call == 'unblock':
            o.block_input = False
        elif call == 'addres':
            try:
                m.rm.add_resources(c['res'], c['arg'])
            except ValueError:
                pass        # a reduction below zero is rejected; nothing changes
        elif call == 'adjust':
            o.adjust_part_count(c['arg'])
        elif call == 'workorder':
            m.maint.create_work_order(o, c.get('res') or 'x')
        elif call == 'rewire':
            o.set_upstream([m.dev[u] for u in c['ups']])
        elif call == 'noise':
            o.add_value('noise', c.get('arg', 1))
        elif call == 'partnoise':
            # the part waiting in the source's output (its routing history is the source alone) changes its value
            for p in self.parts:
                if not isinstance(p, self.Batch) and list(p.routing_history) == [o]:
                    p.add_value('noise', c.get('arg', 1))
        else:
            raise ValueError(call)

    def traced_run(self, d):
        """simulate(trace=True) with HOME pointed at a scratch directory; returns the exported event trace
        as [time, device, kind, priority] rows."""
        import json as _json
        import os
        import shutil
        import tempfile
        home = tempfile.mkdtemp(prefix='simprocesd-verif-home.')
        old = os.environ.get('HOME')
        os.makedirs(os.path.join(home, 'Downloads'))
        os.environ['HOME'] = home
        try:
            self.m.system.simulate(d, trace=True, print_summary=False)
            path = os.path.join(home, 'Downloads', '%s_trace.json' % self.env.name)
            if not os.path.exists(path):
                return [[-1, 0, 'missing', 0]]        # nothing was exported: not what was dispatched
            with open(path) as fh:
                data = _json.load(fh)
        finally:
            if old is None:
                os.environ.pop('HOME', None)
            else:
                os.environ['HOME'] = old
            shutil.rmtree(home, True)
        rows = []
        for i in range(len(data)):
            e = data[str(i)]
            kind = KIND_BY_ACTION.get(e['action'], 'script' if e['action'].startswith('script_') else e['action'])
            asset = self.m.by_asset.get(e['asset_id'], e['asset_id'] if e['asset_id'] < 0 else 0)
            rows.append([tk(e['time']), asset, kind, int(round(e['event_type'] * 10))])
        return rows

    def run(self):
        """The run plan: one simulate per segment (horizon split at the given points)."""
        cfg = self.cfg
        self.schedule_script()
        cuts = sorted(set(cfg.get('splits') or [])) + [cfg['horizon']]
        t0 = 0
        for c in cuts:
            if c <= t0:
                continue
            self.pending_begin = {'op': 'run_begin' if self.m.system._simulation_is_initialized else 'init', 'd': c - t0}
            end = {'op': 'run_end', 't0': t0, 'd': c - t0, 'trace': []}
            if cfg.get('trace'):
                end['trace'] = self.traced_run((c - t0) * TICK)
            else:
                self.m.system.simulate((c - t0) * TICK, print_summary=False)
            self.log(end)
            t0 = c
            for i, sc in enumerate(cfg.get('script') or []):
                if sc.get('between') and sc['t'] == c:
                    self.occs, self.sdlog = [], []
                    self.do_call(sc)
                    self.log({'op': 'step', 'direct': True, 'time': tk(self.env.now), 'prio': 0, 'asset': SCRIPT,
                              'kind': 'script', 'cancelled': False, 'arg': i + 1, 'minhead': True,
                              'occ': self.occs, 'sd': self.sdlog, 'recs': self.new_recs()})
                    self.occs, self.sdlog = [], []


def run_cfg(tid, cfg, seed=0, max_steps=20000, light=True, force=None, fixed=None, id_offset=0, max_parts=600):
    """Returns (lines, error).  A run that does not return within max_steps events is reported."""
    tr = None
    err = None
    try:
        tr = FloorTracer(tid, cfg, seed, light, fixed=fixed, id_offset=id_offset)
        tr.force = force
        env = tr.env
        inner = env.step
        count = [0]

        def guarded():
            count[0] += 1
            if count[0] > max_steps:
                raise RuntimeError('NONTERMINATION: more than %d events' % max_steps)
            if len(tr.parts) > max_parts:
                # every recorded step carries all parts: a runaway source must be stopped before memory is
                raise RuntimeError('NONTERMINATION: more than %d parts' % max_parts)
            inner()
        env.step = guarded
        tr.run()
    except Exception as ex:
        import traceback
        err = '%s: %s' % (type(ex).__name__, ex)
        if not str(ex).startswith('NONTERMINATION'):
            err += ' @ ' + traceback.format_exc().strip().splitlines()[-3].strip()
            # an exception raised by the harness itself (projection, callbacks of the tracer) is not a finding
            tb = traceback.extract_tb(ex.__traceback__)
            if tb and '/harness/' in tb[-1].filename:
                err = 'HARNESS ' + err
    finally:
        _state['cur'] = None
    return (tr.lines if tr else []), err
