"""C12: the maintainer.  Maint.tla + MaintMC (design) + MaintTrace (real-code traces)."""
from .component import Component

COMP = Component(
    name='maint', mc='MaintMC', trace='MaintTrace', driver='maint_driver',
    tiers={
        'quick': dict(design_cfg='MaintMC_small.cfg', sim_num=2400, sim_depth=70, seeds_per_behaviour=2,
                      rnd_num=1500, rnd_len=30, design_timeout=900),
        'thorough': dict(design_cfg='MaintMC_thorough.cfg', sim_num=10000, sim_depth=90, seeds_per_behaviour=3,
                         rnd_num=12000, rnd_len=60, design_timeout=3000),
    },
    rule='design: TLC exhaustive over MaintMC within the cfg bounds (every request stream over three scripted targets, '
         'four maintainer capacities, four hook programs, every tie-break between simultaneous events); code: every TLC '
         '-simulate behaviour (under several tie-break seeds) and seeded random request streams executed on the real '
         'Maintainer + System; each recorded request and dispatched event validated by TLC against the relations of '
         'MaintTrace.tla on the logged pre-state',
    assumptions=['times, capacities and costs are integers (exact in float arithmetic)',
                 'maintainer state is projected from Maintainer._request_queue/_active_requests/_utilization, the public '
                 'available_capacity/value, the recorded work-order datapoints and the hook calls seen by the scripted targets',
                 'targets report capacity/duration/cost from the tables shared with Maint.tla'])


def run(prop, tier):
    return COMP.run(prop, tier, crash_clause='C12.LibraryRaised', floor_clauses=True)


def replay(sc):
    return COMP.replay(sc)
