"""Factory floor pipeline: Floor.tla (closed) + FloorObs.tla (property observers) + FloorTrace.tla."""
import json
import os
import sys
import time

from . import common as C
from . import pipeline as P
from . import floor_cfg as F


def _run(job):
    from . import floor_tracer as T
    tid, cfg, seed = job
    lines, err = T.run_cfg(tid, cfg, seed)
    return lines, err


def debug(n=40, seed=0, fam=None):
    """Development aid: run some configurations and print D.* / clause failures."""
    cfgs = F.quick_family(seed)
    if fam:
        cfgs = [c for c in cfgs if c.get('family', '').startswith(fam)]
    cfgs = cfgs[:n]
    jobs = [(i + 1, c, seed * 100 + i) for i, c in enumerate(cfgs)]
    out = C.parallel_map(_run, jobs)
    traces = [o[0] for o in out]
    for j, o in zip(jobs, out):
        if o[1]:
            print('ERR', j[0], o[1])
    stage = C.stage_specs(C.scratch('floor'))
    os.environ.setdefault('VERIF_DIFF', '0')
    fails, nlines, wall = P.validate_traces(stage, 'FloorTrace', 'FloorTrace.cfg', traces, heap='4g')
    print('lines', nlines, 'wall %.1f' % wall, 'fails', len(fails))
    first = {}
    for tid, k, clause in sorted(fails):
        first.setdefault(tid, []).append((k, clause))
    shown = 0
    for tid, fl in sorted(first.items()):
        k0 = fl[0][0]
        print('trace', tid, 'family', cfgs[tid - 1].get('family'), 'first failing line', k0, [c for k, c in fl if k == k0])
        shown += 1
        if shown >= 8:
            break
    for dline in P.last_diffs[:12]:
        print(dline[:1500])
    return cfgs, traces, first


if __name__ == '__main__':
    debug(int(sys.argv[1]) if len(sys.argv) > 1 else 40)


# ------------------------------------------------------------------------------------------------
# the pipeline proper
# ------------------------------------------------------------------------------------------------
TIERS = {
    'quick': dict(scale=0.55, seeds=1, timeout=900, chunks=4),
    'thorough': dict(scale=6, seeds=2, timeout=3000, chunks=12),
}
FLOOR_PROPS = ('C02', 'C03', 'C04', 'C05', 'C06', 'C08', 'C11', 'C13', 'C15', 'C16', 'C17')


def crash_clause(err):
    """A run that raises or does not return: C03 ('a finite-horizon run of a well-posed model always returns')."""
    kind = err.split(':', 1)[0]
    what = 'NonTermination' if 'NONTERMINATION' in err else 'Raised_' + kind
    return 'C03.RunReturns_' + what


def _chunk(tier, ci, jobs):
    """Runs and validates one chunk of configurations (cached on its own, so that an interrupted run resumes)."""
    T = TIERS[tier]
    out = C.parallel_map(_run, jobs)
    traces = [o[0] for o in out]
    stage = C.stage_specs(C.scratch('floor_%d' % ci))
    fails, nlines, wall = P.validate_traces(stage, 'FloorTrace', 'FloorTrace.cfg', traces, heap='4g', timeout=T['timeout'], tag='c%d' % ci)
    kinds = {}
    for o in out:
        for ln in o[0]:
            k = ln['ev'].get('kind', ln['ev']['op'])
            kinds[k] = kinds.get(k, 0) + 1
    by = {}
    ndiv = 0
    divs = []
    for tid, k, clause in fails:
        if clause.startswith('D.'):
            if clause in ('D.StepFn', 'D.Init'):
                ndiv += 1
                if len(divs) < 3:
                    divs.append({'tid': tid, 'k': k})
            continue
        by.setdefault(tid, []).append((k, clause))
    harness_errors = []
    for j, o in zip(jobs, out):
        if o[1] and o[1].startswith('HARNESS'):
            harness_errors.append((j[0], o[1]))
        elif o[1]:
            by.setdefault(j[0], []).append((len(o[0]), crash_clause(o[1]) + '|' + o[1][:200]))
    vio = []
    tr = {j[0]: o[0] for j, o in zip(jobs, out)}
    for tid, fl in sorted(by.items()):
        fl.sort()
        seen = set()
        for k, clause in fl:
            note = ''
            if '|' in clause:
                clause, note = clause.split('|', 1)
            if clause in seen:
                continue
            seen.add(clause)
            vio.append({'tid': tid, 'k': k, 'clause': clause, 'note': note, 'tags': tags(None, tr[tid], k)})
    return {'lines': nlines, 'wall': round(wall, 1), 'kinds': kinds, 'ndiv': ndiv, 'divs': divs, 'vio': vio,
            'harness_errors': harness_errors[:3], 'first_events': [l['ev'] for l in traces[0][1:6]] if traces else []}


def _pipeline(tier):
    t0 = time.time()
    T = TIERS[tier]
    cfgs = F.quick_family(C.seed(), T['scale'])
    jobs = []
    for c in cfgs:
        for s in range(T['seeds']):
            jobs.append((len(jobs) + 1, c, C.seed() * 1009 + c['cid'] * 7 + s))
    scen = {j[0]: {'cid': j[1]['cid'], 'family': j[1].get('family'), 'cfg': j[1], 'seed': j[2]} for j in jobs}
    n = T['chunks']
    parts = []
    for ci in range(n):
        sub = jobs[ci::n]
        parts.append(P.cached('floor_chunk_%d_of_%d' % (ci, n), tier, lambda ci=ci, sub=sub: _chunk(tier, ci, sub)))
    res = {'tier': tier, 'traces': len(jobs), 'lines': sum(p['lines'] for p in parts),
           'validate_wall': round(sum(p['wall'] for p in parts), 1), 'configs': len(cfgs)}
    fam = {}
    for j in jobs:
        f = j[1].get('family', '?')
        fam[f] = fam.get(f, 0) + 1
    kinds = {}
    for p in parts:
        for k, v in p['kinds'].items():
            kinds[k] = kinds.get(k, 0) + v
    res['families'] = fam
    res['exercised'] = kinds
    res['spec_divergences'] = sum(p['ndiv'] for p in parts)
    res['divergence_samples'] = [dict(d, cid=scen[d['tid']]['cid'], family=scen[d['tid']]['family'])
                                 for p in parts for d in p['divs']][:5]
    res['harness_errors'] = [e for p in parts for e in p['harness_errors']][:5]
    counts = {}
    vio = []
    for p in parts:
        for x in p['vio']:
            counts[x['clause']] = counts.get(x['clause'], 0) + 1
            if counts[x['clause']] <= 25:
                sc = scen[x['tid']]
                vio.append(dict(x, cid=sc['cid'], family=sc['family'], cfg=sc['cfg'], seed=sc['seed']))
    res['clause_counts'] = counts
    res['violations'] = vio
    res['samples'] = [{'cfg': cfgs[0], 'first_events': parts[0]['first_events']}, {'cfg': cfgs[len(cfgs) // 2]}]
    res['wall'] = round(time.time() - t0, 1)
    return res


def tags(cfg, trace, k):
    """Classifies why a scenario fails, for matching known findings (by cause, not by trace hash)."""
    out = []
    # a failure that fired while the machine was already shut down (maintenance) earlier in this trace
    for i, ln in enumerate(trace[:k + 1]):
        ev = ln['ev']
        if ev.get('op') == 'step' and ev.get('kind') == 'fail' and not ev.get('cancelled') and i > 0:
            d = ev['asset']
            pre = trace[i - 1]['st']['dev'][d - 1]
            if pre.get('down'):
                out.append('fail-while-shut-down')
                break
    return out


def result(tier):
    return P.cached('floor', tier, lambda: _pipeline(tier))


def run(prop, tier):
    t0 = time.time()
    res = result(tier)
    if res.get('harness_errors'):
        raise C.MachineryError('the tracer itself failed (projection of a changed implementation?): %r' % (res['harness_errors'][0],))
    v = C.Verdict(prop)
    for x in res['violations']:
        if not x['clause'].startswith(prop + '.'):
            continue
        key = '%s:%s' % (prop, x['clause'].split('.', 1)[1])
        if x['tags']:
            key += ':' + '+'.join(x['tags'])
        v.add(key=key, clause=x['clause'],
              what='configuration %d (%s) line %d fails %s %s' % (x['cid'], x['family'], x['k'], x['clause'], x['note']),
              replay={'pipeline': 'floor', 'cfg': x['cfg'], 'seed': x['seed'], 'line': x['k']})
    ex = None
    if prop == 'C04':
        ex = examples_result(tier)['examples']
        for e in ex:
            if not (e['observed'] == e['reference_tlc'] == e['documented']):
                v.add(key='C04:DocumentedExampleCount:%s' % e['example'], clause='C04.DocumentedExampleCount',
                      what='%s: sink received %d parts, reference %d, documented %d'
                           % (e['example'], e['observed'], e['reference_tlc'], e['documented']),
                      replay={'pipeline': 'floor', 'example': e['example']})
    bf = None
    if prop == 'C05':
        bf = buffloat_result(tier)
        for x in bf['violations']:
            v.add(key='C05:%s' % x['clause'].split('.', 1)[1], clause=x['clause'],
                  what='non-grid buffer run %d departure %d fails %s' % (x['tid'], x['k'], x['clause']),
                  replay={'pipeline': 'floor', 'buffloat_seed': x['seed']})
    if prop == 'C16':
        # "the system's net value is the sum over its registered assets", also for assets created while running:
        # evaluated on the lifecycle traces (LifecycleTrace.tla, clause C16.*)
        from . import p_lifecycle
        lres = p_lifecycle.COMP.result(tier)
        for x in lres['violations']:
            if x['clause'].startswith('C16.'):
                v.add(key='C16:%s' % x['clause'].split('.', 1)[1], clause=x['clause'],
                      what='lifecycle trace %d line %d fails %s' % (x['tid'], x['k'], x['clause']),
                      replay={'pipeline': 'lifecycle', 'ops': x['scenario'].get('ops'), 'seed': x['scenario'].get('seed')})
    pool_lines = 0
    if prop == 'C15':
        # the resource-record clauses are also evaluated on the pool traces (PoolsTrace.tla, clauses C15.*)
        from . import p_pools
        pres = p_pools.result(tier)
        pool_lines = pres['lines']
        for x in pres['violations']:
            if x['clause'].startswith('C15.'):
                v.add(key='C15:%s' % x['clause'].split('.', 1)[1], clause=x['clause'],
                      what='pool trace %d line %d fails %s' % (x['tid'], x['k'], x['clause']),
                      replay={'pipeline': 'pools', 'ops': x['scenario'].get('ops'), 'kind': x['scenario'].get('kind'),
                              'seed': x['scenario'].get('seed'), 'line': x['k']})
    if prop == 'C15':
        # work-order and schedule records: clauses C15.* of MaintTrace.tla and SchedTrace.tla
        from . import p_maint, p_sched
        for comp in (p_maint.COMP, p_sched.COMP):
            cres = comp.result(tier)
            for x in cres['violations']:
                if x['clause'].startswith('C15.'):
                    v.add(key='C15:%s' % x['clause'].split('.', 1)[1], clause=x['clause'],
                          what='%s trace %d line %d fails %s' % (comp.name, x['tid'], x['k'], x['clause']),
                          replay={'pipeline': comp.name, 'ops': x['scenario'].get('ops'), 'seed': x['scenario'].get('seed')})
    lines, rc = v.finish()
    mine = {c: n for c, n in res['clause_counts'].items() if c.startswith(prop + '.')}
    cov = {
        'evaluations': res['lines'], 'distinct_nontrivial': res['configs'],
        'traces_validated_against_impl': res['traces'],
        'samples': res['samples'], 'impl_trace_lines': res['lines'], 'configurations': res['configs'],
        'families': res['families'], 'exercised': res['exercised'],
        'spec_divergences': res['spec_divergences'], 'divergence_samples': res['divergence_samples'],
        'clause_failures_of_this_property': mine, 'from_cache': res['from_cache'],
        'known_findings_hit': v.known_hits, 'pool_trace_lines': pool_lines,
        'rule': 'every configuration of the scenario families (serial, parallel, resources, each also with scripted faults) is run '
                'on the real package; after every dispatched event the projected state is logged and TLC evaluates the '
                'property observers of FloorObs.tla on every line and compares the line with the closed specification '
                'Floor.tla; distinct_nontrivial counts configurations, evaluations counts validated trace lines',
    }
    if ex is not None:
        cov['documented_examples'] = ex
    if bf is not None:
        cov['non_grid_buffer_runs'] = {'runs': bf['runs'], 'departures_checked': bf['departures']}
    d = design_result(tier)
    if d:
        cov.update(states=d['states'], transitions=d['transitions'], design=d, exhaustive=True)
    C.write_evidence(prop, tier, cov, time.time() - t0 if not res['from_cache'] else res['wall'], len(v.unlisted),
                     ['times are multiples of 0.25 time units (exact binary floats), values small integers',
                      'state is projected from public accessors where they exist and from the anchored private fields '
                      '(_part, _output, _buffer, _waiting_for_downstream_space, _reserved_resources, _waiting_requests, ...)',
                      'occurrences are observed through public callbacks registered by the harness'])
    return lines, rc


DESIGN = {'quick': dict(every=3, scale=1, timeout=40, sim=300, depth=120, group=4),
          'thorough': dict(every=1, scale=1, timeout=240, sim=3000, depth=160, group=4)}


def _design(tier):
    """Exhaustive TLC runs of FloorMC over the design family, in groups of a few configurations (one JVM per
    group, all groups in parallel, each under a time limit): a group whose state space is too large for the
    limit is reported as not exhausted instead of holding up the check."""
    from concurrent.futures import ThreadPoolExecutor
    from . import floor_mc as M
    D = DESIGN[tier]
    cfgs = M.design_family(C.seed(), D['scale'])[::D['every']]
    for i, c in enumerate(cfgs):
        c['cid'] = i + 1
    gsize = D['group']
    groups = [cfgs[i:i + gsize] for i in range(0, len(cfgs), gsize)]

    def one(gi):
        stage = C.stage_specs(C.scratch('floor_design_%d' % gi), {'FloorCfgs.tla': M.render_cfgs(groups[gi])})
        r = C.run_tlc(stage, 'FloorMC', 'FloorMC.cfg', workers=2, timeout=D['timeout'], heap='3g')
        if r.rc == -9:
            return gi, None, stage
        C.tlc_machinery_ok(r, 'FloorMC group %d' % gi)
        if r.invariant_violated or r.property_violated or not r.finished:
            raise C.MachineryError('design-level check FloorMC did not pass cleanly (group %d):\n%s'
                                   % (gi, '\n'.join(r.out.splitlines()[-60:])))
        return gi, r, stage
    done = []
    with ThreadPoolExecutor(max(1, C.NCPU // 2)) as ex:
        for x in ex.map(one, range(len(groups))):
            done.append(x)
    fin = [x for x in done if x[1] is not None]
    if not fin:
        raise C.MachineryError('no group of the design family could be exhausted within the time limit')
    res = {'states': sum(x[1].distinct for x in fin), 'transitions': sum(x[1].generated for x in fin),
           'depth': max(x[1].depth for x in fin), 'wall': round(max(x[1].wall for x in fin), 1),
           'configurations': sum(len(groups[x[0]]) for x in fin), 'groups_exhausted': len(fin),
           'groups_not_exhausted_within_limit': len(done) - len(fin), 'cfg': 'FloorMC.cfg',
           'what': 'FloorMC: every tie-break order of every configuration of the exhausted groups of the design family; '
                   'all observer clauses that do not need recorded datapoints (C02 C03 C04 C05 C06 C08 C11 C13 C17) hold on every step'}
    stage = fin[0][2]
    # behaviours of the closed specification (a sample of the completed runs TLC found), replayed on the
    # real package with the dispatch order forced
    beh = []
    for gi, r, _ in fin:
        for t in r.tuples('HIST'):
            beh.append((gi * gsize + t[1], [tuple(x) for x in json.loads(t[2])]))
    beh = beh[:D['sim']]
    for c in cfgs:
        pass
    jobs = [(i + 1, cfgs[cid - 1], hist) for i, (cid, hist) in enumerate(beh)]
    out = C.parallel_map(_replay_forced, jobs)
    traces = [o[0] for o in out]
    fails, nlines, wall = P.validate_traces(stage, 'FloorTrace', 'FloorTrace.cfg', traces, heap='4g')
    res['behaviours_replayed'] = len(jobs)
    res['replay_lines'] = nlines
    res['replay_order_divergences'] = sum(o[2] for o in out)
    res['replay_errors'] = [o[1] for o in out if o[1]][:5]
    res['replay_state_divergences'] = sum(1 for f in fails if f[2] in ('D.StepFn', 'D.Init'))
    res['replay_clause_failures'] = sorted({f[2] for f in fails if not f[2].startswith('D.')})
    res['sample_behaviour'] = {'cid': beh[0][0], 'dispatch_order': beh[0][1][:12]} if beh else None
    return res


def _replay_forced(job):
    from . import floor_tracer as T
    tid, cfg, hist = job
    state = {'i': 0, 'div': 0}

    def force(tr, group):
        if state['i'] >= len(hist):
            return None
        want = hist[state['i']]
        for e in group:
            pe = tr.proj_event(e)
            if pe[3] == 'term':
                return e if len(group) == 1 else None
            if pe[2] == want[0] and pe[3] == want[1] and (len(want) < 3 or pe[5] == want[2]):
                state['i'] += 1
                return e
        state['div'] = 1
        state['i'] += 1
        return None
    cfg = dict(cfg, splits=[])
    lines, err = T.run_cfg(tid, cfg, 0, force=force)
    return lines, err, state['div']


def design_result(tier):
    return P.cached('floor_design', tier, lambda: _design(tier))


# the documented serial examples: (name, devices as (kind, cycle/delay, capacity), horizon in time units, documented count)
EXAMPLES = [
    ('SingleProcessor', [('source', 4, -1), ('processor', 4, 1), ('sink', 0, 1)], 100, 99),
    ('BufferExample', [('source', 0, -1), ('processor', 4, 1), ('buffer', 0, 5), ('processor', 4, 1), ('sink', 0, 1)],
     60 * 24 * 7, 10079),
]


def _examples(tier):
    """Runs the documented serial examples on the real package (plain runs, full horizon) and computes the
    reference count with TLC (Recurrence.tla steps the max-plus recurrence part by part)."""
    from simprocesd.model import System
    from simprocesd.model.factory_floor import Source, PartProcessor, Buffer, Sink
    out = []
    for name, devs, H, documented in EXAMPLES:
        system = System()
        prev = None
        sink = None
        for kind, c, cap in devs:
            if kind == 'source':
                prev = Source(cycle_time=c * 0.25)
            elif kind == 'processor':
                prev = PartProcessor(upstream=[prev], cycle_time=c * 0.25)
            elif kind == 'buffer':
                prev = Buffer(upstream=[prev], minimum_delay=c * 0.25, capacity=cap)
            else:
                prev = sink = Sink(upstream=[prev], cycle_time=c * 0.25)
        system.simulate(H, print_summary=False)
        observed = sink.received_parts_count
        mod = ('------------------------------ MODULE RecCfg ------------------------------\n'
               'EXTENDS Integers\nCyc == %s\nCap == %s\nH == %d\nBudget == -1\n'
               '=============================================================================\n'
               % (C.to_tla([d[1] for d in devs]), C.to_tla([d[2] for d in devs]), H * 4))
        stage = C.stage_specs(C.scratch('rec_' + name), {'RecCfg.tla': mod})
        r = C.run_tlc(stage, 'Recurrence', 'Recurrence.cfg', workers=1, timeout=900, heap='2g')
        C.tlc_machinery_ok(r, 'Recurrence ' + name)
        ref = [t[1] for t in r.tuples('COUNT')]
        if not ref:
            raise C.MachineryError('Recurrence.tla printed no count for %s' % name)
        out.append({'example': name, 'horizon': H, 'documented': documented, 'reference_tlc': ref[-1],
                    'observed': observed, 'states': r.distinct})
    return {'examples': out}


def _bf(job):
    from . import buffloat_driver as B
    return B.run(*job)


def _buffloat(tier):
    n = 300 if tier == 'quick' else 6000
    jobs = [(i + 1, C.seed() * 7907 + i) for i in range(n)]
    traces = C.parallel_map(_bf, jobs)
    stage = C.stage_specs(C.scratch('buffloat'))
    fails, nlines, wall = P.validate_traces(stage, 'BufFloat', 'BufFloat.cfg', traces)
    vio = []
    seen = set()
    for tid, k, clause in sorted(fails):
        if clause in seen:
            continue
        seen.add(clause)
        vio.append({'tid': tid, 'k': k, 'clause': clause, 'seed': jobs[tid - 1][1]})
    return {'runs': n, 'departures': nlines, 'violations': vio}


def buffloat_result(tier):
    return P.cached('floor_buffloat', tier, lambda: _buffloat(tier))


def examples_result(tier):
    return P.cached('floor_examples', tier, lambda: _examples(tier))


def replay(sc):
    from . import floor_tracer as T
    if sc.get('buffloat_seed') is not None:
        from . import buffloat_driver as B
        lines = B.run(1, sc['buffloat_seed'])
        stage = C.stage_specs(C.scratch('buffloat_replay'))
        fails, n, _ = P.validate_traces(stage, 'BufFloat', 'BufFloat.cfg', [lines], shards=1)
        return fails, None
    if sc.get('example'):
        e = [x for x in _examples('quick')['examples'] if x['example'] == sc['example']][0]
        bad = not (e['observed'] == e['reference_tlc'] == e['documented'])
        return ([(1, 0, 'C04.DocumentedExampleCount')] if bad else []), None
    lines, err = T.run_cfg(1, sc['cfg'], sc.get('seed') or 0)
    stage = C.stage_specs(C.scratch('floor_replay'))
    fails, n, _ = P.validate_traces(stage, 'FloorTrace', 'FloorTrace.cfg', [lines], shards=1)
    fails = [f for f in fails if not f[2].startswith('D.')]
    if err:
        fails.append((1, len(lines), crash_clause(err)))
    return fails, err
