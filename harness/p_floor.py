"""Factory floor pipeline: Floor.tla (closed) + FloorObs.tla (property observers) + FloorTrace.tla."""
import json
import os
import sys
import time

from . import common as C
from . import pipeline as P
from . import floor_cfg as F


def _run(job):
    from . import floor_tracer as T
    tid, cfg, seed = job
    lines, err = T.run_cfg(tid, cfg, seed)
    return lines, err


def debug(n=40, seed=0, fam=None):
    """Development aid: run some configurations and print D.* / clause failures."""
    cfgs = F.quick_family(seed)
    if fam:
        cfgs = [c for c in cfgs if c.get('family', '').startswith(fam)]
    cfgs = cfgs[:n]
    jobs = [(i + 1, c, seed * 100 + i) for i, c in enumerate(cfgs)]
    out = C.parallel_map(_run, jobs)
    traces = [o[0] for o in out]
    for j, o in zip(jobs, out):
        if o[1]:
            print('ERR', j[0], o[1])
    stage = C.stage_specs(C.scratch('floor'))
    os.environ.setdefault('VERIF_DIFF', '0')
    fails, nlines, wall = P.validate_traces(stage, 'FloorTrace', 'FloorTrace.cfg', traces, heap='4g')
    print('lines', nlines, 'wall %.1f' % wall, 'fails', len(fails))
    first = {}
    for tid, k, clause in sorted(fails):
        first.setdefault(tid, []).append((k, clause))
    shown = 0
    for tid, fl in sorted(first.items()):
        k0 = fl[0][0]
        print('trace', tid, 'family', cfgs[tid - 1].get('family'), 'first failing line', k0, [c for k, c in fl if k == k0])
        shown += 1
        if shown >= 8:
            break
    for dline in P.last_diffs[:12]:
        print(dline[:1500])
    return cfgs, traces, first


if __name__ == '__main__':
    debug(int(sys.argv[1]) if len(sys.argv) > 1 else 40)
