SPECIFICATION Spec
CONSTANTS
  Level = 2
  RunDurs = {0, 1, 2, 5}
  MaxOps = 14
  MaxNow = 60
  EmitHist = TRUE
CONSTRAINT Bound
CHECK_DEADLOCK FALSE
INVARIANT NonCyclicalStaysLast
