SPECIFICATION Spec
CONSTANT SampleEvery = 12
VIEW view
CHECK_DEADLOCK FALSE
INVARIANT BoundedInstant
INVARIANT SampleHist
INVARIANT RetryProtocol
PROPERTY ObserversHold
