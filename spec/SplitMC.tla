------------------------------ MODULE SplitMC ------------------------------
(***************************************************************************)
(* C14, design level: running for a and then for b time units gives the    *)
(* same evolution as running once for a + b when the tie-break choices are *)
(* held fixed.  Two copies of the kernel state start from the same pending *)
(* events (an arbitrary program over the body alphabet of Kernel.tla);     *)
(* copy A runs in two consecutive runs, copy B in one.  Ties are broken by *)
(* creation order among the non-TERMINATE events (a fixed choice function, *)
(* the same in both copies).  At the end both copies must have executed    *)
(* the same actions at the same times and hold the same pending events.    *)
(***************************************************************************)
EXTENDS Kernel, TLC

CONSTANTS Prios, Deltas, BodyChoices, As, Bs, MaxInit

VARIABLES A, B, phase, a, b, ninit
vars == <<A, B, phase, a, b, ninit>>

(* creation rank among non-TERMINATE events: eids are handed out in creation order in both copies, *)
(* but copy A creates one TERMINATE event more, so ranks are compared, not eids                     *)
NonTerm(K) == {e \in K.queue \cup K.paused : e.body # TermBody}
Rank(K, e) == Cardinality({f \in NonTerm(K) : f.eid < e.eid})      \* rank among the events still pending
Pick(K) == LET M == MinEvents(K.queue) IN
           IF \E e \in M : e.body = TermBody /\ \A f \in M : f.body = TermBody THEN CHOOSE e \in M : TRUE
           ELSE CHOOSE e \in M : e.body # TermBody /\ \A f \in M : f.body # TermBody => e.eid <= f.eid

Init == /\ A = InitK /\ B = InitK /\ phase = "setup" /\ a \in As /\ b \in Bs /\ ninit = 0

Setup == /\ phase = "setup" /\ ninit < MaxInit
         /\ \E dt \in Deltas, p \in Prios, as \in {1, 2}, bd \in BodyChoices :
              /\ A' = Sched(A, dt, p, as, bd)
              /\ B' = Sched(B, dt, p, as, bd)
         /\ ninit' = ninit + 1
         /\ UNCHANGED <<phase, a, b>>
Begin == /\ phase = "setup"
         /\ A' = RunBegin(A, a)
         /\ B' = RunBegin(B, a + b)
         /\ phase' = "run1"
         /\ UNCHANGED <<a, b, ninit>>
(* copy A, first run *)
StepA1 == /\ phase = "run1" /\ ~A.term
          /\ A' = Step(A, Pick(A))
          /\ UNCHANGED <<B, phase, a, b, ninit>>
Between == /\ phase = "run1" /\ A.term
           /\ A' = RunBegin(A, b)
           /\ phase' = "run2"
           /\ UNCHANGED <<B, a, b, ninit>>
StepA2 == /\ phase = "run2" /\ ~A.term
          /\ A' = Step(A, Pick(A))
          /\ UNCHANGED <<B, phase, a, b, ninit>>
StepB == /\ phase = "run2" /\ A.term /\ ~B.term
         /\ B' = Step(B, Pick(B))
         /\ UNCHANGED <<A, phase, a, b, ninit>>
Done == /\ phase = "run2" /\ A.term /\ B.term
        /\ phase' = "done"
        /\ UNCHANGED <<A, B, a, b, ninit>>
Next == Setup \/ Begin \/ StepA1 \/ Between \/ StepA2 \/ StepB \/ Done
Spec == Init /\ [][Next]_vars

Ran(K) == [i \in DOMAIN K.ran |-> K.ran[i][2]]     \* execution times, in execution order
Shape(K) == {<<e.time, e.prio, e.asset, e.body, e.cancelled>> : e \in NonTerm(K)}
SplitEqualsWhole ==
    phase = "done" => /\ A.now = B.now
                      /\ Len(A.ran) = Len(B.ran) /\ Ran(A) = Ran(B)
                      /\ Shape(A) = Shape(B)
                      /\ A.nrej = B.nrej
=============================================================================
