SPECIFICATION Spec
CHECK_DEADLOCK FALSE
INVARIANT Done
