---------------------------- MODULE SensorsTrace ----------------------------
(***************************************************************************)
(* Trace specification for the sensors: validates runs recorded from the   *)
(* real PeriodicSensor / OutputPartSensor / Cms (real System, a real line  *)
(* source -> M1 -> M2 -> sink for the part sensor) against Sensors.tla.    *)
(*   C19.*  the property's clauses    D.*  exact agreement with Sensors.tla *)
(***************************************************************************)
EXTENDS Sensors, TLC, Json, IOUtils

Log == ndJsonDeserialize(IOEnv.TRACE_FILE)
VARIABLE l

Seq2(s) == [i \in DOMAIN s |-> s[i]]
ToZ(z) == [cap |-> z.cap, count |-> z.count, tcount |-> z.tcount, tser |-> Seq2(z.tser),
           ser |-> [i \in DOMAIN z.ser |-> Seq2(z.ser[i])], last |-> Seq2(z.last), cbs |-> Seq2(z.cbs)]
ToW(s) == [now |-> s.now, started |-> s.started, X |-> [x |-> s.X.x, lst |-> Seq2(s.X.lst)],
           P |-> [z |-> ToZ(s.P), iv |-> s.P.iv, next |-> s.P.next],
           Q |-> [z |-> ToZ(s.Q), n |-> s.Q.n, nfin |-> s.Q.nfin, cnt |-> s.Q.cnt],
           cms |-> {s.cms[i] : i \in DOMAIN s.cms}]

C(name, ok) == IF ok THEN {} ELSE {name}
Calls(cbs, now, vals) == [i \in DOMAIN cbs |-> <<cbs[i], TRUE, now, vals>>]
Same(a, b) == a.count = b.count /\ a.ser = b.ser /\ a.tser = b.tser /\ a.last = b.last

PSenseClauses(pre, ev, post, grid) ==
    LET vals == PVals(pre)
        m == Measure(pre.P.z, vals, post.now, TRUE) IN
    C("C19.PeriodicTime", ev.timeExact /\ (grid => post.now = (pre.P.z.tcount + 1) * pre.P.iv))
    \cup C("C19.PeriodicOneMeasurement", post.P.z.count = pre.P.z.count + 1)
    \cup C("C19.ValuesAtThatMoment", post.P.z.ser = m.ser /\ post.P.z.last = vals)
    \cup C("C19.TimeSeriesAligned", post.P.z.tser = m.tser)
    \cup C("C19.CallbacksOnceInOrder", ev.pcalls = Calls(pre.P.z.cbs, post.now, vals) /\ ev.qcalls = <<>>)
    \cup C("C19.OtherSensorUntouched", Same(pre.Q.z, post.Q.z))
    \cup C("D.PSenseFn", grid => post = PSense(pre))

FinishClauses(pre, ev, post) ==
    LET vals == Seq2(ev.fin)
        should == pre.Q.nfin % (pre.Q.n + 1) = 0
        m == Measure(pre.Q.z, vals, post.now, FALSE) IN
    C("C19.PartSensorPattern", (post.Q.z.count > pre.Q.z.count) <=> should)
    \cup C("C19.PartOneMeasurement", should => post.Q.z.count = pre.Q.z.count + 1)
    \cup C("C19.ValuesAtThatMoment", should => post.Q.z.ser = m.ser /\ post.Q.z.last = vals)
    \cup C("C19.CallbacksOnceInOrder",
           ev.pcalls = <<>> /\ ev.qcalls = (IF should THEN Calls(pre.Q.z.cbs, post.now, vals) ELSE <<>>))
    \cup C("C19.StoredValuesNeverChange", (~should => Same(pre.Q.z, post.Q.z)) /\ Same(pre.P.z, post.P.z))
    \cup C("D.FinishFn", [post EXCEPT !.P.next = pre.P.next] = Finish([pre EXCEPT !.now = post.now], vals))

(* sense() called by hand on the periodic sensor between runs *)
MSenseClauses(pre, ev, post) ==
    LET vals == PVals(pre)
        m == Measure(pre.P.z, vals, post.now, FALSE) IN
    C("C19.PeriodicOneMeasurement", post.P.z.count = pre.P.z.count + 1)
    \cup C("C19.ValuesAtThatMoment", post.P.z.ser = m.ser /\ post.P.z.last = vals)
    \cup C("C19.TimeSeriesAligned", post.P.z.tser = pre.P.z.tser)
    \cup C("C19.CallbacksOnceInOrder", ev.pcalls = Calls(pre.P.z.cbs, post.now, vals) /\ ev.qcalls = <<>>)
    \cup C("C19.OtherSensorUntouched", Same(pre.Q.z, post.Q.z))
    \cup C("D.MSenseFn", post = ManualSense(pre))

QuietClauses(pre, ev, post) ==
    C("C19.StoredValuesNeverChange", Same(pre.P.z, post.P.z) /\ Same(pre.Q.z, post.Q.z))
    \cup C("C19.NoCallbackWithoutMeasurement", ev.pcalls = <<>> /\ ev.qcalls = <<>>)

OpClauses(pre, ev, post, grid) ==
    CASE ev.op = "step" /\ ev.kind = "psense" -> PSenseClauses(pre, ev, post, grid)
      [] ev.op = "step" /\ ev.kind = "finish" -> FinishClauses(pre, ev, post)
      [] ev.op = "step"                       -> QuietClauses(pre, ev, post)
      [] ev.op = "start" -> QuietClauses(pre, ev, post) \cup C("D.StartFn", grid => post = Start(pre))
      [] ev.op = "msense" -> MSenseClauses(pre, ev, post)
      [] ev.op = "bump"  -> QuietClauses(pre, ev, post) \cup C("D.BumpFn", post = Bump(pre))
      [] ev.op = "addcb" -> QuietClauses(pre, ev, post) \cup C("D.AddCbFn", post = AddCb(pre, ev.s, ev.id))
      [] ev.op = "cms"   -> QuietClauses(pre, ev, post)
                            \cup C("C19.CmsOnce", post.P.z.cbs = CmsAdd(pre, ev.s).P.z.cbs /\ post.Q.z.cbs = CmsAdd(pre, ev.s).Q.z.cbs)
      [] OTHER           -> {"X.UnknownOp"}

Failed(i) ==
    IF Log[i].k = 0 THEN C("D.Init", ToW(Log[i].st) = InitW(Log[i].ev.iv, Log[i].ev.pcap, Log[i].ev.n, Log[i].ev.qcap))
    ELSE LET pre == ToW(Log[i - 1].st) post == ToW(Log[i].st) ev == Log[i].ev IN
         OpClauses(pre, ev, post, Log[i].st.grid)
         \cup C("C19.Bounded", Bounded(post.P.z, TRUE) /\ Bounded(post.Q.z, FALSE))
         \cup C("C19.ValuesGivenToCallbacksStayPut", Log[i].st.keptok)   \* the lists handed to callbacks earlier still hold their values
         \cup C("C19.TimeSeriesKeepsMostRecent",
                Log[i].st.grid => \A j \in DOMAIN post.P.z.tser :
                                     post.P.z.tser[j] = (post.P.z.tcount - Len(post.P.z.tser) + j) * post.P.iv)
         \cup C("D.CallbackBookkeeping", Log[i].st.P.ncb = Len(post.P.z.cbs) /\ Log[i].st.Q.ncb = Len(post.Q.z.cbs))

Report(i) == \A c \in Failed(i) : PrintT(<<"FAIL", Log[i].tid, Log[i].k, c>>)
Init == l = 1 /\ Report(1)
Next == /\ l < Len(Log)
        /\ l' = l + 1
        /\ Report(l + 1)
        /\ (l + 1 = Len(Log) => PrintT(<<"DONE", Len(Log)>>))
Spec == Init /\ [][Next]_l
=============================================================================
