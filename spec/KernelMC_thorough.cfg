SPECIFICATION Spec
CONSTANTS
  Assets = {1, 2}
  Prios = {49, 50, 70}
  Deltas = {0, 1, 2}
  BodyChoices = {0, 3, 4, 6, 8, 11}
  RunDurs = {0, 1, 3}
  MaxOps = 4
  MaxLive = 3
  MaxNow = 6
  EmitHist = FALSE
VIEW view
CONSTRAINT Bound
CHECK_DEADLOCK FALSE
INVARIANT AtMostOnce
INVARIANT RunCompletes
INVARIANT RunNotBeyond
PROPERTY ClockMonotone
PROPERTY RanWasMinimal
PROPERTY AtMostOneRanPerStep
PROPERTY RejectedChangesNothing
PROPERTY UnpausePreservesDelay
PROPERTY PausedNeverRun
PROPERTY CancelledNeverRuns
PROPERTY CancelIsForever
PROPERTY NothingVanishes
