----------------------------- MODULE FloorTrace -----------------------------
(***************************************************************************)
(* Trace specification for the factory floor.  Validates runs recorded     *)
(* from the real package (floor_tracer.py) line by line:                   *)
(*   - every property observer (FloorObs.tla) is evaluated on the logged   *)
(*     pre-state, event and post-state, with its history variables carried *)
(*     in aux;                                                             *)
(*   - the closed specification's step operator is compared with the       *)
(*     logged post-state (clauses D.*, specification divergence only).     *)
(* The trace file holds many traces; the first line of a trace carries its *)
(* configuration.  A failed clause is printed as <<"FAIL", tid, k, name>>. *)
(***************************************************************************)
EXTENDS FloorObs, Json, IOUtils

Log == ndJsonDeserialize(IOEnv.TRACE_FILE)

VARIABLES l, aux

Get(j, f, dflt) == IF f \in DOMAIN j THEN j[f] ELSE dflt
Tup(s) == [i \in DOMAIN s |-> s[i]]

ToDev(j, d) ==
    [inp |-> Get(j, "inp", 0), out |-> Get(j, "out", 0), wds |-> Get(j, "wds", FALSE), wsince |-> Get(j, "wsince", None),
     off |-> Get(j, "off", 0), blocked |-> j.blocked,
     down |-> Get(j, "down", FALSE), held |-> Get(j, "held", FALSE), wres |-> Get(j, "wres", FALSE),
     up |-> Get(j, "up", 0), ut |-> Get(j, "ut", 0),
     buf |-> LET b == Get(j, "buf", <<>>) IN [i \in DOMAIN b |-> <<b[i][1], b[i][2]>>],
     level |-> Get(j, "level", 0), inprog |-> Tup(Get(j, "inprog", <<>>)), ipb |-> Get(j, "ipb", 0),
     supplied |-> Get(j, "supplied", 0), budget |-> Get(j, "budget", cfg.devs[d].budget), cost |-> Get(j, "cost", 0),
     count |-> Get(j, "count", 0), collected |-> Tup(Get(j, "collected", <<>>)), revenue |-> Get(j, "revenue", 0),
     value |-> j.value, nvh |-> j.nvh,
     damage |-> Get(j, "damage", 0), sdata |-> Tup(Get(j, "sdata", <<>>)), sn |-> Get(j, "sn", 0),
     pdata |-> Tup(Get(j, "pdata", <<>>)), ptime |-> Tup(Get(j, "ptime", <<>>)), pn |-> Get(j, "pn", 0)]
ToPart(p) == [hist |-> Tup(p.hist), gst |-> Tup(p.gst), value |-> p.value, quality |-> p.quality, batch |-> p.batch,
              leaves |-> Tup(p.leaves), seq |-> p.seq]
ToEv(x, i) == [eid |-> i, time |-> x[1], prio |-> x[2], asset |-> x[3], kind |-> x[4], cancelled |-> x[5],
               pausedAt |-> IF Len(x) >= 7 THEN x[7] ELSE None, arg |-> x[6]]
DevName(d) == "d" \o ToString(d)
ToS5(s, ev) ==
    [now |-> s.now,
     dev |-> [d \in Devs |-> ToDev(s.dev[d], d)],
     down |-> [d \in Devs |-> Tup(s.down[d])],
     ups |-> [d \in Devs |-> Tup(s.ups[d])],
     part |-> [p \in DOMAIN s.part |-> ToPart(s.part[p])],
     q |-> {ToEv(s.q[i], i) : i \in DOMAIN s.q},
     pq |-> {ToEv(s.pq[i], i) : i \in DOMAIN s.pq},
     nextEid |-> 0,
     pool |-> [r \in Resources |-> IF r \in DOMAIN s.pool THEN [used |-> s.pool[r].used, cap |-> s.pool[r].cap]
                                   ELSE [used |-> 0, cap |-> 0]],
     waitq |-> Tup(s.waitq), lost |-> [i \in DOMAIN s.lost |-> <<s.lost[i][1], s.lost[i][2]>>],
     cnt |-> [lb \in Labels |-> [d \in Devs |-> IF lb \in DOMAIN s.cnt /\ DevName(d) \in DOMAIN s.cnt[lb]
                                                  THEN s.cnt[lb][DevName(d)] ELSE 0]],
     lastlevel |-> [d \in Devs |-> Get(s.lastlevel, DevName(d), None)],
     lastres |-> [r \in Resources |-> IF r \in DOMAIN s.lastres THEN <<s.lastres[r][1], s.lastres[r][2]>>
                                      ELSE <<0, cfg.pools[r]>>],
     nleaf |-> s.nleaf, inited |-> s.inited,
     occ |-> [i \in DOMAIN ev.occ |-> Tup(ev.occ[i])], sd |-> [i \in DOMAIN ev.sd |-> Tup(ev.sd[i])],
     sch |-> [i \in DOMAIN s.sch |-> [idx |-> s.sch[i].idx, state |-> s.sch[i].state, nrec |-> s.sch[i].nrec]],
     mt |-> [queue |-> [i \in DOMAIN s.mt.queue |-> <<s.mt.queue[i][1], s.mt.queue[i][2]>>],
             active |-> [i \in DOMAIN s.mt.active |-> <<s.mt.active[i][1], s.mt.active[i][2]>>],
             util |-> s.mt.util, value |-> s.mt.value, nvh |-> s.mt.nvh,
             enter |-> s.mt.enter, start |-> s.mt.start, finish |-> s.mt.finish]]
ToS(s) == ToS5(s, [occ |-> <<>>, sd |-> <<>>])

(* comparison with the closed specification ignores event identities *)
Strip(e) == <<e.time, e.prio, e.asset, e.kind, e.cancelled, e.pausedAt, e.arg>>
Bag(Q) == [x \in {Strip(e) : e \in Q} |-> Cardinality({e \in Q : Strip(e) = x})]
Core(S) == [S EXCEPT !.q = Bag(S.q), !.pq = Bag(S.pq), !.nextEid = 0,
                     \* a batch has no value of its own (the implementation reports the sum of its parts)
                     !.part = [p \in DOMAIN @ |-> IF @[p].batch THEN [@[p] EXCEPT !.value = 0] ELSE @[p]]]


(* fields in which the specification's next state differs from the logged one (diagnostics) *)
DiffFields(A, B) == {f \in DOMAIN A : A[f] # B[f]}

SpecStep(pre, ev) ==
    IF ev.op = "init" THEN SchedArg(Initialise(pre), pre.now + ev.d, -1, "term", 10, 0)
    ELSE IF ev.op = "step" /\ ev.direct THEN Script([pre EXCEPT !.occ = <<>>, !.sd = <<>>], cfg.script[ev.arg])
    ELSE IF ev.op = "step" THEN
        LET cands == {e \in MinEvents(pre.q) : e.asset = ev.asset /\ e.kind = ev.kind /\ e.cancelled = ev.cancelled
                                               /\ e.time = ev.time /\ e.prio = ev.prio /\ e.arg = ev.arg} IN
        IF cands = {} THEN pre ELSE Dispatch(pre, CHOOSE e \in cands : TRUE)
    ELSE IF ev.op = "run_begin" THEN SchedArg(pre, pre.now + ev.d, -1, "term", 10, 0)
    ELSE pre

DClauses(pre, ev, post) ==
    LET x == Core(SpecStep(pre, ev))
        y == Core(post) IN
    IF x = y THEN {}
    ELSE {"D.StepFn"} \cup {"D.diff_" \o f : f \in {g \in DiffFields(x, y) : IOEnv.VERIF_DIFF # "1" \/ PrintT(<<"DIFF", g, x[g], y[g]>>)}}

Failed(i) ==
    IF Log[i].k = 0 THEN C("D.Init", Core(ToS(Log[i].st)) = Core(S0))
    ELSE LET pre == ToS(Log[i - 1].st) post == ToS5(Log[i].st, Log[i].ev) ev == Log[i].ev IN
         DClauses(pre, ev, post)
         \cup ObsClauses(pre, ev, post, aux, Log[i].st, Log[i - 1].st)

Report(i) == \A c \in Failed(i) : PrintT(<<"FAIL", Log[i].tid, Log[i].k, c>>)

CfgOf(i) == Log[i].cfg

Init == /\ l = 1
        /\ cfg = CfgOf(1)
        /\ aux = AuxInit
        /\ Report(1)
Next == /\ l < Len(Log)
        /\ l' = l + 1
        /\ cfg' = IF Log[l + 1].k = 0 THEN CfgOf(l + 1) ELSE cfg
        /\ aux' = IF Log[l + 1].k = 0 THEN AuxInit'
                  ELSE AuxNext(aux, ToS(Log[l].st), Log[l + 1].ev, ToS(Log[l + 1].st))
        /\ (IF Log[l + 1].k = 0 THEN TRUE ELSE Report(l + 1))
        /\ (l + 1 = Len(Log) => PrintT(<<"DONE", Len(Log)>>))
Spec == Init /\ [][Next]_<<l, cfg, aux>>
=============================================================================
