----------------------------- MODULE PoolsTrace -----------------------------
(***************************************************************************)
(* Trace specification for the resource pools: validates runs recorded     *)
(* from the real ResourceManager / ReservedResources (bound to a real      *)
(* Environment) against the operators of Pools.tla.                        *)
(*                                                                         *)
(* Line k of trace tid is {tid, k, ev, st}: the call (arguments, outcome)  *)
(* or the dispatched event (with the callbacks it invoked and the pool as  *)
(* each callback found and left it), and the complete projected state      *)
(* after it.  Every line is judged against the logged state of the line    *)
(* before it.  Clause names start with the property they belong to:        *)
(*   C09.*  usage = holdings, atomicity, errors change nothing             *)
(*   C10.*  waiting requests: once, in order, only when feasible           *)
(*   C15.*  resource_update records mirror the pools                       *)
(*   D.*    exact agreement with the closed specification (not a property  *)
(*          violation by itself: reported as specification divergence)     *)
(***************************************************************************)
EXTENDS Pools, TLC, Json, IOUtils

Log == ndJsonDeserialize(IOEnv.TRACE_FILE)

VARIABLE l

ToPool(p) == [r \in U |-> [k |-> p[r].k, used |-> p[r].used, cap |-> p[r].cap]]
ToH(h) == [r \in U |-> h[r]]
ToW(w) == [wid |-> w.wid, req |-> w.req, cb |-> w.cb]
ToP(s) == [now |-> s.now, inited |-> s.inited, pool |-> ToPool(s.pool),
           hold |-> [i \in DOMAIN s.hold |-> ToH(s.hold[i])],
           waitq |-> [i \in DOMAIN s.waitq |-> ToW(s.waitq[i])],
           pend |-> s.pend, calls |-> s.calls, nextWid |-> s.nextWid]

C(name, ok) == IF ok THEN {} ELSE {name}

SameRes(pre, post) == post.pool = pre.pool /\ post.hold = pre.hold
Wids(q) == {q[i].wid : i \in DOMAIN q}

AddClauses(pre, ev, post) ==
    LET valid == ev.n >= 0 \/ (pre.pool[ev.r].k /\ pre.pool[ev.r].cap + ev.n >= 0) IN
    C("C09.AddRel", valid => /\ ev.out = "ok"
                             /\ post.pool = Add(pre, ev.r, ev.n).P.pool
                             /\ post.hold = pre.hold)
    \cup C("C09.AddInvalidKeepsCapNonNeg", ~valid => CapNonNeg(post) /\ post.hold = pre.hold
                                                  /\ \A r \in U : post.pool[r].used = pre.pool[r].used)
    \cup C("D.AddFn", post = Add(pre, ev.r, ev.n).P /\ ev.out = Add(pre, ev.r, ev.n).out)

ReserveClauses(pre, ev, post) ==
    LET fits == Fits(pre.pool, ev.req)
        neg == HasNeg(ev.req)
        h == HoldOf(ev.req) IN
    C("C09.ReserveSucceedsIffFits", ~neg => (fits <=> ev.out = "ok"))
    \cup C("C09.ReserveTakesExactly", (~neg /\ ev.out = "ok") =>
                                         post.pool = Take(pre.pool, h) /\ post.hold = Append(pre.hold, h))
    \cup C("C09.ReserveFailedTakesNothing", ev.out # "ok" => SameRes(pre, post))
    \cup C("C09.ReserveNegativeNeverSucceeds", neg => ev.out # "ok")
    \cup C("D.ReserveFn", post = Reserve(pre, ev.req).P /\ ev.out = Reserve(pre, ev.req).out)

ReleaseClauses(pre, ev, post) ==
    LET h == pre.hold[ev.rid]
        valid == ev.all \/ ValidRelease(h, ev.what)
        x == Release(pre, ev.rid, ev.all, ev.what) IN
    C("C09.ReleaseGivesBackExactly", valid => /\ ev.out = "ok"
                                             /\ post.pool = x.P.pool /\ post.hold = x.P.hold)
    \cup C("C09.ReleaseInvalidChangesNothing", ~valid => SameRes(pre, post))
    \cup C("D.ReleaseFn", post = x.P /\ ev.out = x.out)

MergeClauses(pre, ev, post) ==
    C("C09.MergeKeepsUsage", post.pool = pre.pool)
    \cup C("C09.MergeAddsHoldings", post.hold = Merge(pre, ev.i, ev.j).P.hold)
    \cup C("D.MergeFn", post = Merge(pre, ev.i, ev.j).P)

RegisterClauses(pre, ev, post) ==
    C("C10.RegisterAppends", /\ Len(post.waitq) = Len(pre.waitq) + 1
                             /\ SubSeq(post.waitq, 1, Len(pre.waitq)) = pre.waitq
                             /\ post.waitq[Len(post.waitq)].req = ev.req)
    \cup C("C09.RegisterTakesNothing", SameRes(pre, post))
    \cup C("D.RegisterFn", post = Register(pre, ev.req, ev.cb).P)

(* a dispatched event (availability check or the end of the run) *)
StepClauses(pre, ev, post) ==
    LET cs == ev.calls
        called == {cs[i].wid : i \in DOMAIN cs}
        \* the pool a waiter saw when the scan looked at it: as left by the last
        \* callback of an earlier registered waiter, else as before the check
        PoolAtScan(w) == LET before == {i \in DOMAIN cs : cs[i].wid < w} IN
                         IF before = {} THEN pre.pool
                         ELSE ToPool(cs[CHOOSE i \in before : \A j \in before : j <= i].pout)
    IN
    C("C10.CalledOnlyIfFits", \A i \in DOMAIN cs : Fits(ToPool(cs[i].pin), cs[i].req))
    \cup C("C10.CalledInRegistrationOrder", \A i, j \in DOMAIN cs : i < j => cs[i].wid < cs[j].wid)
    \cup C("C10.CallbackArgs", \A i \in DOMAIN cs : cs[i].argsOk)
    \cup C("C10.CallsLogged", post.calls = pre.calls \o [i \in DOMAIN cs |-> <<cs[i].wid, post.now>>])
    \cup C("C10.CalledExactlyOnce", NoDupCalls(post) /\ called \cap Wids(post.waitq) = {})
    \cup C("C10.OnlyCalledLeave", \A i \in DOMAIN pre.waitq :
                                     pre.waitq[i].wid \notin called => pre.waitq[i].wid \in Wids(post.waitq))
    \cup C("C10.RegisteredDuringCheckIsKept",
           \* a request registered by a callback during this check is either served or still waiting
           \A i \in DOMAIN ev.newwids : ev.newwids[i] \in called \/ ev.newwids[i] \in Wids(post.waitq))
    \cup C("C10.WaitersKeepOrder", \A i, j \in DOMAIN post.waitq : i < j => post.waitq[i].wid < post.waitq[j].wid)
    \cup C("C10.SkippedDidNotFit",
           \A i \in DOMAIN pre.waitq :
               LET w == pre.waitq[i].wid IN
               (w \notin called /\ \E v \in called : v > w) => ~Fits(PoolAtScan(w), pre.waitq[i].req))
    \cup C("C10.NoFeasibleWaiterWhenTimeAdvances", post.now > pre.now => NoFeasibleWaiter(pre))
    \cup C("C10.CalledAtThisInstant", cs # <<>> => post.now = pre.now)
    \cup C("D.CheckFn", (post.now = pre.now /\ pre.pend > 0) => post = Check(pre))

OpClauses(pre, ev, post) ==
    CASE ev.op = "init"     -> C("D.InitFn", post = Initialize(pre))
      [] ev.op = "add"      -> AddClauses(pre, ev, post)
      [] ev.op = "reserve"  -> ReserveClauses(pre, ev, post)
      [] ev.op = "release"  -> ReleaseClauses(pre, ev, post)
      [] ev.op = "merge"    -> MergeClauses(pre, ev, post)
      [] ev.op = "register" -> RegisterClauses(pre, ev, post)
      [] ev.op = "step"     -> StepClauses(pre, ev, post)
      [] OTHER              -> {"X.UnknownOp"}

RecOK(s, P) == P.inited => \A r \in U : P.pool[r].k =>
                  s.rec[r].n > 0 /\ s.rec[r].used = P.pool[r].used /\ s.rec[r].cap = P.pool[r].cap

Failed(i) ==
    IF Log[i].k = 0 THEN C("D.Init", ToP(Log[i].st) = InitP)
    ELSE LET pre == ToP(Log[i - 1].st) post == ToP(Log[i].st) ev == Log[i].ev IN
         OpClauses(pre, ev, post)
         \cup C("C09.UsageIsHeld", UsageIsHeld(post))
         \cup C("C09.CapNonNeg", CapNonNeg(post))
         \cup C("C09.HoldNonNeg", HoldNonNeg(post))
         \cup C("C09.ErrorChangesNothing",
                (ev.op # "step" /\ ev.out = "error") => SameRes(pre, post) /\ post.waitq = pre.waitq)
         \cup C("C09.OverOnlyAfterReduce",
                \A r \in U : (Over(post, r) /\ ~Over(pre, r)) => (ev.op = "add" /\ ev.r = r /\ ev.n < 0))
         \cup C("C15.LastResourceRecord", RecOK(Log[i].st, post))
         \cup C("C15.RecordPerPoolChange",
                \A r \in U : (post.inited /\ pre.inited /\ post.pool[r] # pre.pool[r] /\ ev.op # "step")
                                => Log[i].st.rec[r].n > Log[i - 1].st.rec[r].n)

Report(i) == \A c \in Failed(i) : PrintT(<<"FAIL", Log[i].tid, Log[i].k, c>>)

Init == l = 1 /\ Report(1)
Next == /\ l < Len(Log)
        /\ l' = l + 1
        /\ Report(l + 1)
        /\ (l + 1 = Len(Log) => PrintT(<<"DONE", Len(Log)>>))
Spec == Init /\ [][Next]_l
=============================================================================
