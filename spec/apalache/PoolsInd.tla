------------------------------ MODULE PoolsInd ------------------------------
(***************************************************************************)
(* C09, unbounded in the amounts: an inductive invariant of the pool       *)
(* arithmetic, discharged with Apalache (not with TLC).  The operations    *)
(* are those of Pools.tla (Add, Reserve, Release, Merge) over three        *)
(* reservation objects, with arbitrary INTEGER amounts and capacities:     *)
(*   Inv:  usage of every resource = sum of the amounts held, holdings and *)
(*         capacities never negative                                       *)
(* Check:  apalache-mc check --init=IndInit --inv=IndInv --length=1        *)
(*         (IndInit is the invariant itself, so one step from any state    *)
(*         satisfying it is examined), and --init=Init --inv=IndInv         *)
(*         --length=0 for the base case.                                   *)
(***************************************************************************)
EXTENDS Integers, Apalache

VARIABLES
    \* @type: Str -> Int;
    used,
    \* @type: Str -> Int;
    cap,
    \* @type: Int -> (Str -> Int);
    hold

U == {"A", "B", "Z"}
R == {1, 2, 3}

Sum(r) == hold[1][r] + hold[2][r] + hold[3][r]

IndInv ==
    /\ DOMAIN used = U /\ DOMAIN cap = U /\ DOMAIN hold = R
    /\ \A i \in R : DOMAIN hold[i] = U
    /\ \A r \in U : used[r] = Sum(r) /\ cap[r] >= 0
    /\ \A i \in R : \A r \in U : hold[i][r] >= 0

Init == /\ used = [r \in U |-> 0] /\ cap = [r \in U |-> 0]
        /\ hold = [i \in R |-> [r \in U |-> 0]]
(* an arbitrary state satisfying the invariant: Gen(n) yields arbitrary values of the variable's type *)
IndInit == used = Gen(3) /\ cap = Gen(3) /\ hold = Gen(3) /\ IndInv

(* add_resources: rejected when the capacity would become negative *)
Add == \E r \in U : \E n \in Int :
          /\ cap[r] + n >= 0
          /\ cap' = [cap EXCEPT ![r] = @ + n]
          /\ UNCHANGED <<used, hold>>

(* reserve_resources into an empty reservation object: all or nothing, no negative entry *)
Reserve == \E i \in R : \E a \in Int, b \in Int, z \in Int :
          LET req == [r \in U |-> IF r = "A" THEN a ELSE IF r = "B" THEN b ELSE z] IN
          /\ \A r \in U : hold[i][r] = 0
          /\ \A r \in U : req[r] >= 0 /\ cap[r] - used[r] >= req[r]
          /\ used' = [r \in U |-> used[r] + req[r]]
          /\ hold' = [hold EXCEPT ![i] = req]
          /\ UNCHANGED cap

(* release of part of what a reservation holds *)
Release == \E i \in R : \E a \in Int, b \in Int, z \in Int :
          LET w == [r \in U |-> IF r = "A" THEN a ELSE IF r = "B" THEN b ELSE z] IN
          /\ \A r \in U : w[r] >= 0 /\ w[r] <= hold[i][r]
          /\ used' = [r \in U |-> used[r] - w[r]]
          /\ hold' = [hold EXCEPT ![i] = [r \in U |-> hold[i][r] - w[r]]]
          /\ UNCHANGED cap

(* merge of two distinct reservations *)
Merge == \E i \in R, j \in R :
          /\ i # j
          /\ hold' = [hold EXCEPT ![i] = [r \in U |-> hold[i][r] + hold[j][r]], ![j] = [r \in U |-> 0]]
          /\ UNCHANGED <<used, cap>>

Next == Add \/ Reserve \/ Release \/ Merge
=============================================================================
