------------------------------- MODULE Sched -------------------------------
(***************************************************************************)
(* The ActionScheduler of simprocesd                                       *)
(* (model/factory_floor/action_scheduler.py).                              *)
(*                                                                         *)
(* S = [now, tt, cyc, idx, state, reg, started, evq, calls, nrec, lastrec, *)
(*      nuid]                                                              *)
(*   tt      : the timetable, a sequence of <<duration, state>> (ticks)    *)
(*   cyc     : the schedule repeats (also when constructed without flag)   *)
(*   idx     : index of the current entry (n + 1: a finished non-cyclical  *)
(*             schedule)                                                   *)
(*   reg     : registered objects in registration order, <<obj, ov>> with  *)
(*             ov = 1 when registered with an override action              *)
(*   evq     : pending events: the scheduler's own next transition and     *)
(*             user events that register / unregister objects during a run *)
(*   calls   : the action invocations of the last step, in order,          *)
(*             <<obj, ov>>                                                 *)
(*   nrec, lastrec : number of schedule_update records and the last one    *)
(***************************************************************************)
EXTENDS Integers, Sequences, FiniteSets

NoState == "-"
RemoveAt(s, i) == SubSeq(s, 1, i - 1) \o SubSeq(s, i + 1, Len(s))

RECURSIVE Prefix(_, _)
Prefix(tt, j) == IF j = 0 THEN 0 ELSE tt[j][1] + Prefix(tt, j - 1)
Period(tt) == Prefix(tt, Len(tt))

(* the timetable evaluated independently of the implementation's bookkeeping *)
EntryK(tt, cyc, k) == IF cyc THEN ((k - 1) % Len(tt)) + 1 ELSE k
BeginK(tt, cyc, k) == IF cyc THEN ((k - 1) \div Len(tt)) * Period(tt) + Prefix(tt, (k - 1) % Len(tt))
                      ELSE Prefix(tt, k - 1)
LastLE(tt, r) == CHOOSE i \in 1..Len(tt) : Prefix(tt, i - 1) <= r /\ \A j \in 1..Len(tt) : Prefix(tt, j - 1) <= r => j <= i
StateAt(tt, cyc, t) == IF cyc THEN tt[LastLE(tt, t % Period(tt))][2] ELSE tt[LastLE(tt, t)][2]

InitS(tt, cyc) == [now |-> 0, tt |-> tt, cyc |-> cyc, idx |-> 0, state |-> NoState, reg |-> <<>>,
                   started |-> FALSE, evq |-> {}, calls |-> <<>>, nrec |-> 0, lastrec |-> <<0, NoState>>, nuid |-> 1]

Objs(S) == {S.reg[i][1] : i \in DOMAIN S.reg}
TransEv(t) == [kind |-> "trans", time |-> t, prio |-> 110, act |-> "", obj |-> "", ov |-> 0, uid |-> 0]

(* entering timetable entry i: new state, one record, one action per registered object *)
Enter(S, i) ==
    [S EXCEPT !.idx = i, !.state = S.tt[i][2], !.nrec = @ + 1, !.lastrec = <<S.now, S.tt[i][2]>>,
              !.calls = S.reg,
              !.evq = @ \cup {TransEv(S.now + S.tt[i][1])}]

(* initialize (at the start of the first run) *)
Start(S) == Enter([S EXCEPT !.started = TRUE], 1)

(* _update_state *)
Transition(S) ==
    LET i == S.idx + 1 IN
    IF ~S.cyc /\ i > Len(S.tt) THEN [S EXCEPT !.idx = i, !.calls = <<>>]
    ELSE Enter([S EXCEPT !.calls = <<>>], ((i - 1) % Len(S.tt)) + 1)

Register(S, o, ov) ==
    IF o \in Objs(S) THEN [S |-> S, ret |-> FALSE]
    ELSE [S |-> [S EXCEPT !.reg = Append(@, <<o, ov>>)], ret |-> TRUE]
Unregister(S, o) ==
    IF o \notin Objs(S) THEN [S |-> S, ret |-> FALSE]
    ELSE [S |-> [S EXCEPT !.reg = RemoveAt(@, CHOOSE i \in DOMAIN S.reg : S.reg[i][1] = o)], ret |-> TRUE]

SchedUser(S, dt, prio, act, o, ov) ==
    [S EXCEPT !.evq = @ \cup {[kind |-> "user", time |-> S.now + dt, prio |-> prio, act |-> act, obj |-> o,
                               ov |-> ov, uid |-> S.nuid]},
              !.nuid = @ + 1]

Before(e, f) == e.time < f.time \/ (e.time = f.time /\ e.prio > f.prio)
MinEvents(Q) == {e \in Q : \A f \in Q : ~Before(f, e)}

Dispatch(S, e) ==
    LET S1 == [S EXCEPT !.now = e.time, !.evq = @ \ {e}, !.calls = <<>>] IN
    IF e.kind = "trans" THEN Transition(S1)
    ELSE IF e.act = "reg" THEN Register(S1, e.obj, e.ov).S
    ELSE Unregister(S1, e.obj).S
=============================================================================
