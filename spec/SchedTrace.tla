----------------------------- MODULE SchedTrace -----------------------------
(***************************************************************************)
(* Trace specification for the action scheduler: validates runs recorded   *)
(* from the real ActionScheduler (real System / Environment) against the   *)
(* operators of Sched.tla and against the timetable evaluated              *)
(* independently (prefix sums, period).                                    *)
(*   C18.*  the property's clauses     D.*  exact agreement with Sched.tla *)
(***************************************************************************)
EXTENDS Sched, TLC, Json, IOUtils

Log == ndJsonDeserialize(IOEnv.TRACE_FILE)
VARIABLE l

ToTT(tt) == [i \in DOMAIN tt |-> <<tt[i][1], tt[i][2]>>]
ToEvt(e) == [kind |-> e.kind, time |-> e.time, prio |-> e.prio, act |-> e.act, obj |-> e.obj, ov |-> e.ov, uid |-> e.uid]
ToS(s) == [now |-> s.now, tt |-> ToTT(s.tt), cyc |-> s.cyc, idx |-> s.idx, state |-> s.state,
           reg |-> [i \in DOMAIN s.reg |-> <<s.reg[i][1], s.reg[i][2]>>],
           started |-> s.started, evq |-> {ToEvt(s.evq[i]) : i \in DOMAIN s.evq},
           calls |-> [i \in DOMAIN s.calls |-> <<s.calls[i][1], s.calls[i][2]>>],
           nrec |-> s.nrec, lastrec |-> <<s.lastrec[1], s.lastrec[2]>>, nuid |-> s.nuid]

C(name, ok) == IF ok THEN {} ELSE {name}

(* what an entry transition must look like, judged from the timetable alone *)
ChangeClauses(pre, ev, post, k) ==
    LET i == EntryK(pre.tt, pre.cyc, k) IN
    C("C18.ChangeAtPrefixSumTime", post.now = BeginK(pre.tt, pre.cyc, k))
    \cup C("C18.NewStateIsTimetable", post.state = pre.tt[i][2])
    \cup C("C18.OneRecordPerChange", post.nrec = pre.nrec + 1 /\ post.lastrec = <<post.now, pre.tt[i][2]>>)
    \cup C("C15.OneScheduleRecordPerChange", post.nrec = pre.nrec + 1 /\ post.lastrec = <<post.now, pre.tt[i][2]>>)
    \cup C("C18.ActionsOncePerRegisteredInOrder", post.calls = pre.reg)
    \cup C("C18.ActionArguments", \A j \in DOMAIN ev.args : ev.args[j] = <<TRUE, post.now, pre.tt[i][2]>>)
    \cup C("C18.RegistryUntouchedByChange", post.reg = pre.reg)

NoChangeClauses(pre, ev, post) ==
    C("C18.NoActionsWithoutChange", post.calls = <<>>)
    \cup C("C18.NoRecordWithoutChange", post.nrec = pre.nrec)
    \cup C("C15.NoScheduleRecordWithoutChange", post.nrec = pre.nrec)
    \cup C("C18.StateKeptWithoutChange", post.state = pre.state)

StepClauses(pre, ev, post) ==
    IF ev.kind = "start" THEN ChangeClauses(pre, ev, post, 1) \cup C("D.StartFn", post = Start(pre))
    ELSE IF ev.kind = "trans" THEN
         (IF ~pre.cyc /\ pre.nrec >= Len(pre.tt)
          THEN NoChangeClauses(pre, ev, post) \cup C("C18.RegistryUntouchedByChange", post.reg = pre.reg)
          ELSE ChangeClauses(pre, ev, post, pre.nrec + 1))
         \cup C("D.TransFn", \E e \in MinEvents(pre.evq) : e.kind = "trans" /\ post = Dispatch(pre, e))
    ELSE IF ev.kind = "user" THEN
         NoChangeClauses(pre, ev, post)
         \cup (IF ev.act = "reg"
               THEN C("C18.RegisterRel", post.reg = Register(pre, ev.obj, ev.ov).S.reg /\ ev.ret = Register(pre, ev.obj, ev.ov).ret)
               ELSE C("C18.UnregisterRel", post.reg = Unregister(pre, ev.obj).S.reg /\ ev.ret = Unregister(pre, ev.obj).ret))
    ELSE NoChangeClauses(pre, ev, post) \cup C("C18.RegistryUntouchedByChange", post.reg = pre.reg)

OpClauses(pre, ev, post) ==
    CASE ev.op = "register"   -> NoChangeClauses(pre, ev, post)
                                 \cup C("C18.RegisterRel", post.reg = Register(pre, ev.obj, ev.ov).S.reg
                                                           /\ ev.ret = Register(pre, ev.obj, ev.ov).ret)
      [] ev.op = "unregister" -> NoChangeClauses(pre, ev, post)
                                 \cup C("C18.UnregisterRel", post.reg = Unregister(pre, ev.obj).S.reg
                                                             /\ ev.ret = Unregister(pre, ev.obj).ret)
      [] ev.op = "sched"      -> NoChangeClauses(pre, ev, post) \cup C("C18.RegistryUntouchedByChange", post.reg = pre.reg)
      [] ev.op = "step"       -> StepClauses(pre, ev, post)
      [] OTHER                -> {"X.UnknownOp"}

Failed(i) ==
    IF Log[i].k = 0 THEN C("D.Init", ToS(Log[i].st) = InitS(ToTT(Log[i].ev.tt), Log[i].ev.cyc # "no"))
    ELSE LET pre == ToS(Log[i - 1].st) post == ToS(Log[i].st) ev == Log[i].ev IN
         OpClauses(pre, ev, post)
         \cup C("C18.StateIsTimetableWhenTimeAdvances",
                (post.now > pre.now /\ pre.started) => pre.state = StateAt(pre.tt, pre.cyc, pre.now))
         \cup C("D.RegistryBookkeeping", [j \in DOMAIN Log[i].st.preg |-> <<Log[i].st.preg[j][1], Log[i].st.preg[j][2]>>] = post.reg)
         \cup C("C18.TimetableNeverMissed",
                \* no change is skipped: the next change of the timetable is not already overdue
                (post.now > pre.now /\ pre.started /\ (pre.cyc \/ pre.nrec < Len(pre.tt)))
                    => BeginK(pre.tt, pre.cyc, pre.nrec + 1) > pre.now)

Report(i) == \A c \in Failed(i) : PrintT(<<"FAIL", Log[i].tid, Log[i].k, c>>)
Init == l = 1 /\ Report(1)
Next == /\ l < Len(Log)
        /\ l' = l + 1
        /\ Report(l + 1)
        /\ (l + 1 = Len(Log) => PrintT(<<"DONE", Len(Log)>>))
Spec == Init /\ [][Next]_l
=============================================================================
