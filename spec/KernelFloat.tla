----------------------------- MODULE KernelFloat -----------------------------
(***************************************************************************)
(* C01 off the exact time grid: events at times such as 0.1 + 0.2 and 0.3  *)
(* (different floats that are almost equal).  TLA+ has no floating point;  *)
(* the driver compares the float values exactly and logs, per dispatched   *)
(* event, whether the popped event was minimal by (time, -priority) among  *)
(* the pending ones, whether the clock equals its time and did not go      *)
(* back, and per run whether it ended at exactly t0 + d with nothing due   *)
(* left.  This module states what those observations must be.              *)
(***************************************************************************)
EXTENDS TLC, Json, IOUtils, Sequences, Integers

Log == ndJsonDeserialize(IOEnv.TRACE_FILE)
VARIABLE l
C(name, ok) == IF ok THEN {} ELSE {name}

Failed(i) ==
    LET ev == Log[i].ev IN
    IF ev.op = "step"
    THEN C("C01.FloatStepMin", ev.minhead) \cup C("C01.FloatStepClock", ev.clockeq)
         \cup C("C01.FloatClockMonotone", ev.mono) \cup C("C01.FloatAtMostOnce", ev.once)
    ELSE C("C01.FloatRunComplete", ev.endeq /\ ev.nodue) \cup C("C01.FloatRejectsPast", ev.pastrejected)

Report(i) == \A c \in Failed(i) : PrintT(<<"FAIL", Log[i].tid, Log[i].k, c>>)
Init == l = 1 /\ Report(1)
Next == /\ l < Len(Log)
        /\ l' = l + 1
        /\ Report(l + 1)
        /\ (l + 1 = Len(Log) => PrintT(<<"DONE", Len(Log)>>))
Spec == Init /\ [][Next]_l
=============================================================================
