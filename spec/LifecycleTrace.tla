--------------------------- MODULE LifecycleTrace ---------------------------
(***************************************************************************)
(* Trace specification for the system lifecycle: validates scripts run on  *)
(* the real System / asset classes against Lifecycle.tla, and compares the *)
(* observable behaviour of late-created assets with their twins.           *)
(*   C20.*  the property's clauses   D.*  exact agreement with Lifecycle.tla*)
(***************************************************************************)
EXTENDS Lifecycle, TLC, Json, IOUtils

Log == ndJsonDeserialize(IOEnv.TRACE_FILE)
VARIABLE l

ToA(a) == [kind |-> a.kind, sys |-> a.sys, inits |-> a.inits]
ToPe(e) == [sys |-> e.sys, time |-> e.time, kind |-> e.kind, uid |-> e.uid]
ToL(s) == [nsys |-> s.nsys, inited |-> [i \in DOMAIN s.inited |-> s.inited[i]], now |-> [i \in DOMAIN s.now |-> s.now[i]],
           assets |-> [i \in DOMAIN s.assets |-> ToA(s.assets[i])],
           pend |-> {ToPe(s.pend[i]) : i \in DOMAIN s.pend}, nuid |-> s.nuid]
ToF(f) == [name |-> f.name, id |-> f.id, type |-> f.type, subtype |-> f.subtype]

C(name, ok) == IF ok THEN {} ELSE {name}
Reg(as) == [i \in DOMAIN as |-> <<as[i].kind, as[i].sys>>]
Inits(as) == [i \in DOMAIN as |-> as[i].inits]

CreateClauses(pre, ev, post) ==
    LET x == Create(pre, ev.kind) IN
    C("C20.CreateNeedsSystem", (pre.nsys = 0) <=> (ev.out = "error"))
    \cup C("C20.LateCreateWorks_" \o ev.kind, ev.out \in {"ok", "error"})
    \cup C("C20.RegistersWithLatestSystem", ev.out \in {"ok", "error"} => Reg(post.assets) = Reg(x.L.assets))
    \cup C("C20.InitialisedImmediatelyWhenRunning", ev.out \in {"ok", "error"} => Inits(post.assets) = Inits(x.L.assets))
    \cup C("D.CreateFn", ev.out \in {"ok", "error"} => post = x.L)

SimClauses(pre, ev, post) ==
    LET x == SimBegin(pre, ev.sys) IN
    C("C20.OnlyLatestSimulates", ev.out = x.out)
    \cup C("C20.RefusedSimulateChangesNothing", x.out = "error" => post = pre)
    \cup C("C20.InitialisedExactlyOnce", x.out = "ok" => Inits(post.assets) = Inits(x.L.assets))
    \cup C("D.SimFn", post = x.L)

StepClauses(pre, ev, post) ==
    IF ev.kind = "late" THEN
        LET es == {e \in pre.pend : e.uid = ev.uid} IN
        IF es = {} THEN {"D.UnknownLateEvent"}
        ELSE LET e == CHOOSE x \in es : TRUE
                 y == LateCreate(pre, e) IN
             C("C20.LateCreateWorks_" \o e.kind, ev.crash = "")
             \cup C("C20.RegistersWithLatestSystem", ev.crash = "" => Reg(post.assets) = Reg(y.assets))
             \cup C("C20.InitialisedImmediatelyWhenRunning", ev.crash = "" => Inits(post.assets) = Inits(y.assets))
             \cup C("D.LateFn", ev.crash = "" => post = y)
    ELSE C("C20.InitialisedBeforeFirstEvent", ev.asset > 0 => pre.assets[ev.asset].inits = 1)
         \cup C("C20.EventsDoNotInitialise", Inits(post.assets) = Inits(pre.assets))

FindClauses(pre, ev, post) ==
    LET res == {ev.result[i] : i \in DOMAIN ev.result} IN
    C("C20.FindExact", res = Find(pre, ev.sys, ToF(ev.f)) /\ Cardinality(res) = Len(ev.result))
    \cup C("C20.FindChangesNothing", post = pre)

TwinClauses(ev) ==
    C("C20.LateCreateWorks_" \o ev.kind, ev.late.error = "")
    \cup C("C20.TwinScenarioRuns", ev.twin.error = "")
    \cup C("C20.LateLikeTwin_" \o ev.kind, (ev.late.error = "" /\ ev.twin.error = "") => ev.late.sum = ev.twin.sum)

OpClauses(pre, ev, post) ==
    CASE ev.op = "newsys" -> C("D.NewSysFn", post = NewSys(pre))
      [] ev.op = "create" -> CreateClauses(pre, ev, post)
      [] ev.op = "late"   -> C("D.SchedLateFn", post = SchedLate(pre, ev.dt, ev.kind))
      [] ev.op = "sim"    -> SimClauses(pre, ev, post)
      [] ev.op = "simend" -> C("C20.RunDoesNotInitialise", Inits(post.assets) = Inits(pre.assets))
      [] ev.op = "step"   -> StepClauses(pre, ev, post)
      [] ev.op = "find"   -> FindClauses(pre, ev, post)
      [] ev.op = "twin"   -> TwinClauses(ev)
      [] OTHER            -> {"X.UnknownOp"}

Failed(i) ==
    IF Log[i].k = 0 THEN C("D.Init", ToL(Log[i].st) = InitL)
    ELSE LET pre == ToL(Log[i - 1].st) post == ToL(Log[i].st) ev == Log[i].ev IN
         OpClauses(pre, ev, post)
         \cup C("C16.NetValueIsSumOverRegisteredAssets",
                \A y \in DOMAIN Log[i].st.net : Log[i].st.net[y] = Log[i].st.regsum[y])
         \cup C("C20.InitAtMostOnce", InitAtMostOnce(post))
         \cup C("C20.RegistrationIsForever", SubSeq(Reg(post.assets), 1, Len(pre.assets)) = Reg(pre.assets))

Report(i) == \A c \in Failed(i) : PrintT(<<"FAIL", Log[i].tid, Log[i].k, c>>)
Init == l = 1 /\ Report(1)
Next == /\ l < Len(Log)
        /\ l' = l + 1
        /\ Report(l + 1)
        /\ (l + 1 = Len(Log) => PrintT(<<"DONE", Len(Log)>>))
Spec == Init /\ [][Next]_l
=============================================================================
