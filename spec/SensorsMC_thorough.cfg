SPECIFICATION Spec
CONSTANTS
  IVs = {1, 2, 3}
  Caps = {1, 2, 3, 99}
  Ns = {0, 1, 2}
  PC = 2
  RunDurs = {0, 1, 3, 6}
  MaxOps = 7
  MaxNow = 18
  EmitHist = FALSE
VIEW view
CONSTRAINT Bound
CHECK_DEADLOCK FALSE
INVARIANT InvBounded
INVARIANT CmsOnce
INVARIANT TimeSeriesRecent
PROPERTY PeriodicTimes
PROPERTY PartPattern
PROPERTY SeriesStable
