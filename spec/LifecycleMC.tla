---------------------------- MODULE LifecycleMC ----------------------------
(***************************************************************************)
(* Closed specification of the lifecycle: systems are created, assets of   *)
(* every kind are created before the first run, between runs and from      *)
(* inside events, systems (also superseded ones) are simulated repeatedly, *)
(* and assets are looked up with every combination of filters.             *)
(***************************************************************************)
EXTENDS Lifecycle, TLC, Json

CONSTANTS KindSet, RunDurs, MaxOps, MaxAssets, MaxSys, EmitHist
VARIABLES L, mode, runSys, runEnd, nops, hist
vars == <<L, mode, runSys, runEnd, nops, hist>>
view == <<L, mode, runSys, runEnd, nops>>

Init == L = InitL /\ mode = "idle" /\ runSys = 0 /\ runEnd = 0 /\ nops = 0 /\ hist = <<>>
Rec(h) == /\ hist' = Append(hist, h) /\ nops' = nops + 1
Idle == mode = "idle" /\ nops < MaxOps
Same == UNCHANGED <<mode, runSys, runEnd>>

OpNewSys == /\ Idle /\ L.nsys < MaxSys /\ L' = NewSys(L) /\ Rec([op |-> "newsys"]) /\ Same
OpCreate == /\ Idle /\ Len(L.assets) < MaxAssets
            /\ \E k \in KindSet : LET x == Create(L, k) IN L' = x.L /\ Rec([op |-> "create", kind |-> k, out |-> x.out])
            /\ Same
OpLate == /\ Idle /\ L.nsys > 0 /\ Len(L.assets) + Cardinality(L.pend) < MaxAssets
          /\ \E k \in KindSet, dt \in {0, 1, 2} : L' = SchedLate(L, dt, k) /\ Rec([op |-> "late", kind |-> k, dt |-> dt])
          /\ Same
OpSim == /\ Idle /\ L.nsys > 0
         /\ \E s \in 1..L.nsys, d \in RunDurs :
              LET x == SimBegin(L, s) IN
              /\ L' = x.L
              /\ Rec([op |-> "sim", sys |-> s, d |-> d, out |-> x.out])
              /\ IF x.out = "ok" THEN mode' = "running" /\ runSys' = s /\ runEnd' = L.now[s] + d
                 ELSE Same
Filters == {[name |-> n, id |-> i, type |-> t, subtype |-> u] :
               n \in {"", "handler", "nosuch", "<empty>"}, i \in {0, 1, 2, -1}, t \in {"", "PartHandler", "Sink"},
               u \in {"", "Asset", "PartHandler", "PartFlowController"}}
OpFind == /\ Idle /\ L.nsys > 0 /\ Len(L.assets) > 0
          /\ \E s \in 1..L.nsys, f \in Filters : Rec([op |-> "find", sys |-> s, f |-> f]) /\ UNCHANGED L
          /\ Same
Due == {e \in L.pend : e.sys = runSys /\ e.time <= runEnd}
LateStep == /\ mode = "running" /\ Due # {}
            /\ \E e \in Due : (\A f \in Due : e.time <= f.time) /\ L' = LateCreate(L, e)
            /\ UNCHANGED <<mode, runSys, runEnd, nops, hist>>
RunEnd == /\ mode = "running" /\ Due = {}
          /\ L' = [L EXCEPT !.now[runSys] = runEnd] /\ mode' = "idle"
          /\ UNCHANGED <<runSys, runEnd, nops, hist>>
Next == OpNewSys \/ OpCreate \/ OpLate \/ OpSim \/ OpFind \/ LateStep \/ RunEnd
Spec == Init /\ [][Next]_vars

InvInitAtMostOnce == InitAtMostOnce(L)
InvInitedOnceSimulated == InitedOnceSimulated(L)
(* every asset is registered with the system that was the latest when it was created, for good *)
RegistrationIsForever == [][\A i \in DOMAIN L.assets : L'.assets[i].sys = L.assets[i].sys /\ L'.assets[i].kind = L.assets[i].kind]_vars
OnlyLatestRuns == mode = "running" => runSys = L.nsys
HistOut == (EmitHist /\ mode = "idle" /\ nops >= MaxOps) => PrintT(<<"HIST", ToJson(hist)>>)
=============================================================================
