SPECIFICATION Spec
CONSTANTS
  AddRes = {"A", "B"}
  Cbs = {0, 1, 2, 4}
  RunDurs = {0, 1}
  MaxOps = 5
  MaxHold = 2
  MaxWait = 2
  ReqLevel = 1
  EmitHist = FALSE
VIEW view
CONSTRAINT Bound
CHECK_DEADLOCK FALSE
INVARIANT InvUsageIsHeld
INVARIANT InvCapNonNeg
INVARIANT InvHoldNonNeg
INVARIANT InvOverOnlyAfterReduce
INVARIANT InvCalledAtMostOnce
PROPERTY QuiescentNoFeasibleWaiter
PROPERTY ChangeSchedulesCheck
PROPERTY CalledOnlyWhenFits
