----------------------------- MODULE Recurrence -----------------------------
(***************************************************************************)
(* C04: the blocking-after-service reference for a serial line as a        *)
(* stepping specification, so that long horizons (the documented examples: *)
(* 10 080 time units) cost one trivial state per part instead of a deep    *)
(* recursive evaluation.  Column k holds the arrival times A(d, k) of the  *)
(* k-th part at the devices d = 2..N (device 1 is the source, N the sink): *)
(*   A(2,k) = max(A(2,k-1) + c1, A(3, k-K2))                                *)
(*   A(d,k) = max(A(d-1,k) + c(d-1), A(d,k-1), A(d+1, k-Kd))    2 < d < N   *)
(*   A(N,k) = max(A(N-1,k) + c(N-1), A(N,k-1) + cN)                         *)
(* with terms for k <= 0 read as 0 and unbounded capacities dropping the    *)
(* blocking term.  The line parameters come from the generated module       *)
(* RecCfg (Cyc, Cap: per device; H: horizon in ticks; Budget).              *)
(***************************************************************************)
EXTENDS Integers, Sequences, TLC, RecCfg

VARIABLES k, cols, count
N == Len(Cyc)
W == 8                                  \* columns kept (capacities of the examples are at most 5)
Max(a, b) == IF a > b THEN a ELSE b
Prev(j, d) == IF j <= 0 \/ j < k - Len(cols) THEN 0 ELSE cols[Len(cols) - (k - 1 - j)][d]   \* A(d, j) for j < k

RECURSIVE Column(_, _)
(* arrival times of part k at devices 2..d, given the columns of earlier parts *)
Column(d, acc) ==
    IF d > N THEN acc
    ELSE LET fromUp == IF d = 2 THEN Prev(k - 1, 2) + Cyc[1] ELSE acc[d - 1] + Cyc[d - 1]
             order == Prev(k - 1, d)
             space == IF d = N THEN (IF k > 1 THEN Prev(k - 1, N) + Cyc[N] ELSE 0)
                      ELSE IF Cap[d] = -1 THEN 0 ELSE Prev(k - Cap[d], d + 1)
         IN Column(d + 1, [acc EXCEPT ![d] = Max(fromUp, Max(order, space))])

Zero == [d \in 1..N |-> 0]
Init == k = 1 /\ cols = <<>> /\ count = 0
Next == LET c == Column(2, Zero) IN
        /\ c[2] <= H /\ (Budget = -1 \/ k <= Budget)
        /\ k' = k + 1
        /\ cols' = IF Len(cols) >= W THEN Tail(cols) \o <<c>> ELSE cols \o <<c>>
        /\ count' = IF c[N] <= H THEN count + 1 ELSE count
Spec == Init /\ [][Next]_<<k, cols, count>>
(* the reference count is printed when no further part enters the line within the horizon *)
Done == LET c == Column(2, Zero) IN
        (c[2] > H \/ (Budget # -1 /\ k > Budget)) => PrintT(<<"COUNT", count>>)
=============================================================================
