SPECIFICATION Spec
CONSTANTS
  Caps = {1, 2, 3, 99}
  Progs = {0, 1, 2, 3}
  ReqTargets = {"T1", "T2", "T3"}
  RunDurs = {0, 1, 2, 5}
  MaxOps = 6
  MaxNow = 14
  EmitHist = FALSE
VIEW view
CONSTRAINT Bound
CHECK_DEADLOCK FALSE
INVARIANT InvCapacityOK
INVARIANT InvOnePerTarget
INVARIANT InvNoDupOrders
INVARIANT InvEventsMatchActive
PROPERTY QuiescentNoStartableLeft
PROPERTY ExactDuration
PROPERTY CostOnlyAtStart
