----------------------------- MODULE MaintTrace -----------------------------
(***************************************************************************)
(* Trace specification for the maintainer: validates runs recorded from    *)
(* the real Maintainer (bound to a real System / Environment, scripted     *)
(* Maintainable targets) against the operators of Maint.tla.               *)
(* Line k of trace tid is {tid, k, ev, st}: the request (with its return   *)
(* value) or the dispatched event, the records and hook calls it caused,   *)
(* and the complete projected state after it.  Every line is judged        *)
(* against the logged state of the line before it.                         *)
(*   C12.*  the property's clauses      D.*  exact agreement with Maint.tla *)
(***************************************************************************)
EXTENDS Maint, TLC, Json, IOUtils

Log == ndJsonDeserialize(IOEnv.TRACE_FILE)

VARIABLE l

ToO(o) == [t |-> o.t, g |-> o.g, c |-> o.c]
ToE(e) == [kind |-> e.kind, t |-> e.t, g |-> e.g, time |-> e.time]
ToS(s) == [t |-> s.t, g |-> s.g, at |-> s.at, dur |-> s.dur]
ToM(s) == [now |-> s.now, cap |-> s.cap, prog |-> s.prog,
           queue |-> [i \in DOMAIN s.queue |-> ToO(s.queue[i])],
           active |-> [i \in DOMAIN s.active |-> ToO(s.active[i])],
           util |-> s.util, cost |-> s.cost,
           evq |-> {ToE(s.evq[i]) : i \in DOMAIN s.evq},
           started |-> {ToS(s.started[i]) : i \in DOMAIN s.started}]

C(name, ok) == IF ok THEN {} ELSE {name}
Sel(s, kind) == SelectSeq(s, LAMBDA h : h[1] = kind)
SameOrders(a, b) == a.queue = b.queue /\ a.active = b.active /\ a.util = b.util

CreateClauses(pre, ev, post) ==
    LET dup == Dup(pre, ev.t, ev.g)
        x == Create(pre, ev.t, ev.g) IN
    C("C12.CreateReturn", ev.ret = ~dup)
    \cup C("C12.DuplicateChangesNothing", dup => SameOrders(pre, post) /\ ev.recs = <<>> /\ post.cost = pre.cost)
    \cup C("C12.AcceptedQueuesAndScans", ~dup => SameOrders(x.M, post))
    \cup C("C12.EnterRecord", ~dup => ev.recs = << <<"enter_queue", pre.now, ev.t, ev.g>> >>)
    \cup C("C15.OneEnterQueueRecordPerAcceptedOrder", IF dup THEN ev.recs = <<>> ELSE ev.recs = << <<"enter_queue", pre.now, ev.t, ev.g>> >>)
    \cup C("C12.NoHooksAtRequest", ev.hooks = <<>> /\ post.cost = pre.cost)
    \cup C("D.CreateFn", post = x.M)

StartClauses(pre, ev, post) ==
    LET e == [kind |-> "start", t |-> ev.t, g |-> ev.g, time |-> ev.time] IN
    IF ~\E o \in Range(pre.active) : o.t = ev.t /\ o.g = ev.g THEN {"C12.StartOnlySelected"}
    ELSE C("C12.StartHookOnce", Sel(ev.hooks, "start") = << <<"start", ev.t, ev.g>> >> /\ Sel(ev.hooks, "end") = <<>>)
         \cup C("C12.StartRecord", /\ Sel(ev.recs, "start_work_order") = << <<"start_work_order", post.now, ev.t, ev.g>> >>
                                   /\ Sel(ev.recs, "finish_work_order") = <<>>)
         \cup C("C15.OneStartRecordPerStartedOrder",
                /\ Sel(ev.recs, "start_work_order") = << <<"start_work_order", post.now, ev.t, ev.g>> >>
                /\ Sel(ev.recs, "finish_work_order") = <<>>)
         \cup C("C12.CostChargedOnce", post.cost = pre.cost + CostOf(ev.t, ev.g))
         \cup C("C12.StartedNow", \E s \in post.started : s.t = ev.t /\ s.g = ev.g /\ s.at = post.now)
         \cup C("C12.StartKeepsSelection", SameOrders(StartWork(pre, e), post))
         \cup C("D.StartFn", post = StartWork(pre, e))

FinishClauses(pre, ev, post) ==
    LET e == [kind |-> "finish", t |-> ev.t, g |-> ev.g, time |-> ev.time] IN
    IF ~\E o \in Range(pre.active) : o.t = ev.t /\ o.g = ev.g THEN {"C12.FinishOnlyActive"}
    ELSE C("C12.ExactDuration", \E s \in pre.started : s.t = ev.t /\ s.g = ev.g /\ post.now = s.at + s.dur)
         \cup C("C12.EndHookOnce", Sel(ev.hooks, "end") = << <<"end", ev.t, ev.g>> >> /\ Sel(ev.hooks, "start") = <<>>)
         \cup C("C12.FinishRecord", /\ Sel(ev.recs, "finish_work_order") = << <<"finish_work_order", post.now, ev.t, ev.g>> >>
                                    /\ Sel(ev.recs, "start_work_order") = <<>>)
         \cup C("C15.OneFinishRecordPerFinishedOrder",
                /\ Sel(ev.recs, "finish_work_order") = << <<"finish_work_order", post.now, ev.t, ev.g>> >>
                /\ Sel(ev.recs, "start_work_order") = <<>>)
         \cup C("C12.FinishFreesAndRescans", SameOrders(FinishWork(pre, e), post))
         \cup C("C12.NoCostAtFinish", post.cost = pre.cost)
         \cup C("D.FinishFn", post = FinishWork(pre, e))

StepClauses(pre, ev, post) ==
    CASE ev.kind = "start"  -> StartClauses(pre, ev, post)
      [] ev.kind = "finish" -> FinishClauses(pre, ev, post)
      [] OTHER -> C("C12.OtherEventsChangeNothing", SameOrders(pre, post) /\ post.cost = pre.cost
                                                    /\ ev.hooks = <<>> /\ ev.recs = <<>>)

OpClauses(pre, ev, post) ==
    CASE ev.op = "create" -> CreateClauses(pre, ev, post)
      [] ev.op = "step"   -> StepClauses(pre, ev, post)
      [] OTHER            -> {"X.UnknownOp"}

Failed(i) ==
    IF Log[i].k = 0 THEN C("D.Init", ToM(Log[i].st) = InitM(Log[i].ev.cap, Log[i].ev.prog))
    ELSE LET pre == ToM(Log[i - 1].st) post == ToM(Log[i].st) ev == Log[i].ev IN
         OpClauses(pre, ev, post)
         \cup C("C12.CapacityOK", CapacityOK(post))
         \cup C("C12.OnePerTarget", OnePerTarget(post))
         \cup C("C12.NoDupOrders", NoDupOrders(post))
         \cup C("C12.AvailableCapacity", Log[i].st.avail = post.cap - post.util)
         \cup C("C12.NoStartableLeftWhenTimeAdvances", post.now > pre.now => NoStartableLeft(pre))

Report(i) == \A c \in Failed(i) : PrintT(<<"FAIL", Log[i].tid, Log[i].k, c>>)

Init == l = 1 /\ Report(1)
Next == /\ l < Len(Log)
        /\ l' = l + 1
        /\ Report(l + 1)
        /\ (l + 1 = Len(Log) => PrintT(<<"DONE", Len(Log)>>))
Spec == Init /\ [][Next]_l
=============================================================================
