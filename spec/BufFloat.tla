------------------------------ MODULE BufFloat ------------------------------
(***************************************************************************)
(* C05 off the exact time grid: buffers with delays such as 0.1, 0.3, 1/3  *)
(* and arrival times that are sums of such values.  TLA+ has no floating   *)
(* point, so the tracer records for every part that left a buffer its      *)
(* arrival and departure ranks and, computed with exact rational           *)
(* arithmetic (fractions.Fraction of the float values), whether it left    *)
(* earlier than arrival + minimum delay by more than one unit of rounding  *)
(* of the clock (early), and the buffer's level against its capacity.      *)
(* This module decides what those observations must be.                    *)
(***************************************************************************)
EXTENDS TLC, Json, IOUtils, Sequences, Integers

Log == ndJsonDeserialize(IOEnv.TRACE_FILE)
VARIABLE l
C(name, ok) == IF ok THEN {} ELSE {name}

Failed(i) ==
    LET ev == Log[i].ev IN
    C("C05.NotEarlierThanDelayUpToOneRoundingUnit", ~ev.early)
    \cup C("C05.NonGridLeavesInArrivalOrder", ev.arrank = ev.deprank)
    \cup C("C05.NonGridCapacity", ev.cap = -1 \/ ev.maxlevel <= ev.cap)
    \cup C("C05.NonGridLevelIsContent", ev.level = ev.stored)

Report(i) == \A c \in Failed(i) : PrintT(<<"FAIL", Log[i].tid, Log[i].k, c>>)
Init == l = 1 /\ Report(1)
Next == /\ l < Len(Log)
        /\ l' = l + 1
        /\ Report(l + 1)
        /\ (l + 1 = Len(Log) => PrintT(<<"DONE", Len(Log)>>))
Spec == Init /\ [][Next]_l
=============================================================================
