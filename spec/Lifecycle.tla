----------------------------- MODULE Lifecycle -----------------------------
(***************************************************************************)
(* System lifecycle of simprocesd (model/system.py, factory_floor/asset.py *)
(* and the constructors of the asset classes): registration with the most  *)
(* recently created system, one-time initialisation, the active-system     *)
(* rule, asset look-up, assets created while the simulation runs.          *)
(*                                                                         *)
(* L = [nsys, inited, now, assets, pend, nuid]                             *)
(*   nsys    : number of systems created so far; the latest one is active  *)
(*   inited  : inited[s] - system s has initialised its assets             *)
(*   now     : now[s]    - clock of system s                               *)
(*   assets  : all non-transitory assets in creation order,                *)
(*             [kind, sys, inits]  (sys = the system it registered with,   *)
(*             inits = number of times it was initialised)                 *)
(*   pend    : pending user events that create an asset from inside a run  *)
(*             [sys, time, kind, uid]                                      *)
(* Creating an output-part sensor also creates the processor it observes   *)
(* (kind "qproc").  An asset's name is its kind, so names are shared.      *)
(* A "builder" is a user-defined Asset whose initialize() creates a buffer: *)
(* during the first run's initialisation loop, or on the spot when it is    *)
(* itself created while the simulation is already initialised.              *)
(***************************************************************************)
EXTENDS Integers, Sequences, FiniteSets

Kinds == {"source", "handler", "processor", "buffer", "gate", "batcher", "sink",
          "maintainer", "scheduler", "psensor", "qsensor", "cms", "builder"}
ClassOf(k) == CASE k = "source" -> "Source" [] k = "handler" -> "PartHandler" [] k = "processor" -> "PartProcessor"
                [] k = "qproc" -> "PartProcessor" [] k = "buffer" -> "Buffer" [] k = "gate" -> "DecisionGate"
                [] k = "batcher" -> "PartBatcher" [] k = "sink" -> "Sink" [] k = "maintainer" -> "Maintainer"
                [] k = "scheduler" -> "ActionScheduler" [] k = "psensor" -> "PeriodicSensor"
                [] k = "qsensor" -> "OutputPartSensor" [] k = "builder" -> "Builder" [] OTHER -> "Cms"
Handlers == {"Source", "PartHandler", "PartProcessor", "Buffer", "PartBatcher", "Sink"}
IsA(c, super) == CASE super = "Asset" -> TRUE
                   [] super = "PartFlowController" -> c \in Handlers \cup {"DecisionGate"}
                   [] super = "PartHandler" -> c \in Handlers
                   [] super = "Maintainable" -> c = "PartProcessor"
                   [] super = "Sensor" -> c \in {"PeriodicSensor", "OutputPartSensor"}
                   [] OTHER -> c = super

InitL == [nsys |-> 0, inited |-> <<>>, now |-> <<>>, assets |-> <<>>, pend |-> {}, nuid |-> 1]

NewSys(L) == [L EXCEPT !.nsys = @ + 1, !.inited = Append(@, FALSE), !.now = Append(@, 0)]

Expand(L, k) == IF k = "qsensor" THEN <<"qproc", "qsensor">>
                ELSE IF k = "builder" /\ L.inited[L.nsys] THEN <<"builder", "buffer">> ELSE <<k>>
NewAssets(L, k) == [i \in DOMAIN Expand(L, k) |->
                      [kind |-> Expand(L, k)[i], sys |-> L.nsys, inits |-> IF L.inited[L.nsys] THEN 1 ELSE 0]]

(* Asset.__init__ / System.add_asset: needs a system; registers with the latest; *)
(* initialised on the spot when that system's simulation has been initialised    *)
Create(L, k) == IF L.nsys = 0 THEN [L |-> L, out |-> "error"]
                ELSE [L |-> [L EXCEPT !.assets = @ \o NewAssets(L, k)], out |-> "ok"]

SchedLate(L, dt, k) ==
    [L EXCEPT !.pend = @ \cup {[sys |-> L.nsys, time |-> L.now[L.nsys] + dt, kind |-> k, uid |-> L.nuid]},
              !.nuid = @ + 1]

(* System.simulate, first half: only the latest system; assets initialised once *)
SimBegin(L, s) ==
    IF s # L.nsys THEN [L |-> L, out |-> "error"]
    ELSE LET first == ~L.inited[s]
             \* what the builders of this system create while the initialisation loop runs: reached by the same loop
             built == SelectSeq(L.assets, LAMBDA a : first /\ a.sys = s /\ a.kind = "builder")
             kids == [i \in DOMAIN built |-> [kind |-> "buffer", sys |-> s, inits |-> 1]] IN
         [L |-> [L EXCEPT !.inited[s] = TRUE,
                          !.assets = [i \in DOMAIN @ |->
                                         IF @[i].sys = s /\ first THEN [@[i] EXCEPT !.inits = @ + 1] ELSE @[i]] \o kids],
          out |-> "ok"]

(* a pending creation event fires inside the run of system e.sys *)
LateCreate(L, e) == Create([L EXCEPT !.pend = @ \ {e}, !.now[e.sys] = e.time], e.kind).L

Matches(L, i, s, f) ==
    LET a == L.assets[i] IN
    /\ a.sys = s
    /\ (f.name = "" \/ f.name = a.kind)        \* "<empty>": the empty string given as a name - no asset has it
    /\ (f.id = 0 \/ f.id = i)                 \* -1: the id 0 given - no asset has it
    /\ (f.type = "" \/ f.type = ClassOf(a.kind))
    /\ (f.subtype = "" \/ IsA(ClassOf(a.kind), f.subtype))
Find(L, s, f) == {i \in DOMAIN L.assets : Matches(L, i, s, f)}

InitAtMostOnce(L) == \A i \in DOMAIN L.assets : L.assets[i].inits <= 1
InitedOnceSimulated(L) == \A i \in DOMAIN L.assets : L.inited[L.assets[i].sys] => L.assets[i].inits = 1
=============================================================================
