------------------------------- MODULE Pools -------------------------------
(***************************************************************************)
(* Resource pools of simprocesd (model/resource_manager.py:                *)
(* ResourceManager, ReservedResources).                                    *)
(*                                                                         *)
(* Written to be bound: every public call and every availability check is  *)
(* one operator  Op(P, args) -> [P |-> P', out |-> outcome]  over the pool *)
(* state record P.  The closed specification (PoolsMC) and the trace       *)
(* specification (PoolsTrace) use the same operators.                      *)
(*                                                                         *)
(* P = [now, inited, pool, hold, waitq, pend, calls, nextWid]              *)
(*   pool[r]  = [k, used, cap]   k: the resource name is known             *)
(*   hold[i]  = amounts held by the i-th reservation object (U -> Nat)     *)
(*   waitq    = sequence of [wid, req, cb]: registered waiting requests    *)
(*   pend     = availability checks scheduled for the current instant      *)
(*   calls    = sequence of <<wid, time>>: callback invocations so far     *)
(* A request is a function from a subset of U to integers (a Python dict). *)
(* Callbacks come from the finite program alphabet described at RunCb.     *)
(***************************************************************************)
EXTENDS Integers, Sequences, FiniteSets

U == {"A", "B", "Z"}

Range(s) == {s[i] : i \in DOMAIN s}

InitP == [now |-> 0, inited |-> FALSE,
          pool |-> [r \in U |-> [k |-> FALSE, used |-> 0, cap |-> 0]],
          hold |-> <<>>, waitq |-> <<>>, pend |-> 0, calls |-> <<>>, nextWid |-> 1]

Amt(req, r) == IF r \in DOMAIN req THEN req[r] ELSE 0
HasNeg(req) == \E r \in DOMAIN req : req[r] < 0
Zero == [r \in U |-> 0]
HoldOf(req) == [r \in U |-> IF Amt(req, r) > 0 THEN req[r] ELSE 0]

(* every positive amount fits into capacity minus usage of a known resource *)
Fits(pool, req) ==
    \A r \in DOMAIN req : req[r] > 0 => (r \in U /\ pool[r].k /\ pool[r].cap - pool[r].used >= req[r])

Take(pool, h) == [r \in U |-> [pool[r] EXCEPT !.used = @ + h[r]]]
GiveBack(pool, h) == [r \in U |-> [pool[r] EXCEPT !.used = @ - h[r]]]

Res(P, o) == [P |-> P, out |-> o]

(* ResourceManager.initialize *)
Initialize(P) == [P EXCEPT !.inited = TRUE]

(* add_resources(r, n) *)
Add(P, r, n) ==
    IF n = 0 THEN Res(P, "ok")
    ELSE IF n < 0 /\ (~P.pool[r].k \/ P.pool[r].cap + n < 0) THEN Res(P, "error")
    ELSE Res([P EXCEPT !.pool[r] = [k |-> TRUE, used |-> @.used, cap |-> @.cap + n],
                       !.pend = IF P.inited THEN @ + 1 ELSE @], "ok")

(* reserve_resources(req): all or nothing; a negative entry is an error *)
Reserve(P, req) ==
    IF ~Fits(P.pool, req) THEN Res(P, "none")
    ELSE IF HasNeg(req) THEN Res(P, "error")
    ELSE Res([P EXCEPT !.pool = Take(@, HoldOf(req)), !.hold = Append(@, HoldOf(req))], "ok")

(* ReservedResources.release(what); all = TRUE releases everything held *)
ValidRelease(h, w) == \A r \in DOMAIN w : w[r] >= 0 /\ (w[r] > 0 => (r \in U /\ h[r] >= w[r]))
Release(P, i, all, w) ==
    LET h == P.hold[i]
        g == IF all THEN h ELSE HoldOf(w) IN
    IF ~all /\ ~ValidRelease(h, w) THEN Res(P, "error")
    ELSE Res([P EXCEPT !.pool = GiveBack(@, g),
                       !.hold[i] = [r \in U |-> h[r] - g[r]],
                       !.pend = @ + 1], "ok")

(* a.merge(b) for two distinct reservation objects *)
Merge(P, i, j) ==
    Res([P EXCEPT !.hold[i] = [r \in U |-> P.hold[i][r] + P.hold[j][r]], !.hold[j] = Zero], "ok")

(* reserve_resources_with_callback(req, cb) *)
Register(P, req, cb) ==
    Res([P EXCEPT !.waitq = Append(@, [wid |-> P.nextWid, req |-> req, cb |-> cb]),
                  !.nextWid = @ + 1, !.pend = @ + 1], "ok")

(* Callback programs (shared with the Python driver):                      *)
(*  0 nothing          1 reserve the request it waited for                 *)
(*  2 reserve {A: 1}   3 register another waiter ({A: 1}, program 0)       *)
(*  4 release reservation 1 completely (if it exists)                      *)
(*  5 reserve its request and register another waiter ({B: 1}, program 1)  *)
A1 == [r \in {"A"} |-> 1]
B1 == [r \in {"B"} |-> 1]
RunCb(P, w) ==
    CASE w.cb = 1 -> Reserve(P, w.req).P
      [] w.cb = 2 -> Reserve(P, A1).P
      [] w.cb = 3 -> Register(P, A1, 0).P
      [] w.cb = 4 -> IF Len(P.hold) >= 1 THEN Release(P, 1, TRUE, <<>>).P ELSE P
      [] w.cb = 5 -> Register(Reserve(P, w.req).P, B1, 1).P
      [] OTHER    -> P

RemoveAt(s, i) == SubSeq(s, 1, i - 1) \o SubSeq(s, i + 1, Len(s))

(* _check_pending_requests: in-order scan; a waiter that fits is called    *)
(* back (the callback may reserve, release, register) and removed.         *)
RECURSIVE Scan(_, _)
Scan(P, i) ==
    IF i > Len(P.waitq) THEN P
    ELSE LET w == P.waitq[i] IN
         IF Fits(P.pool, w.req)
         THEN LET P1 == RunCb([P EXCEPT !.calls = Append(@, <<w.wid, P.now>>)], w) IN
              Scan([P1 EXCEPT !.waitq = RemoveAt(@, i)], i)
         ELSE Scan(P, i + 1)

Check(P) == Scan([P EXCEPT !.pend = @ - 1], 1)

Advance(P, d) == [P EXCEPT !.now = @ + d]

----------------------------------------------------------------------------
(* State properties (C09 / C10) *)

RECURSIVE SumHold(_, _, _)
SumHold(hold, r, n) == IF n = 0 THEN 0 ELSE hold[n][r] + SumHold(hold, r, n - 1)

UsageIsHeld(P) == \A r \in U : P.pool[r].used = SumHold(P.hold, r, Len(P.hold)) /\ P.pool[r].used >= 0
CapNonNeg(P) == \A r \in U : P.pool[r].cap >= 0
HoldNonNeg(P) == \A i \in DOMAIN P.hold : \A r \in U : P.hold[i][r] >= 0
Over(P, r) == P.pool[r].used > P.pool[r].cap
NoDupCalls(P) == \A i, j \in DOMAIN P.calls : P.calls[i][1] = P.calls[j][1] => i = j
NoFeasibleWaiter(P) == \A i \in DOMAIN P.waitq : ~Fits(P.pool, P.waitq[i].req)
=============================================================================
