SPECIFICATION Spec
CONSTANTS
  KindSet = {"source", "handler", "processor", "buffer", "gate", "batcher", "sink", "maintainer", "scheduler", "psensor", "qsensor", "cms", "builder"}
  RunDurs = {0, 1, 2, 3}
  MaxOps = 14
  MaxAssets = 7
  MaxSys = 3
  EmitHist = TRUE
CHECK_DEADLOCK FALSE
INVARIANT InvInitAtMostOnce
