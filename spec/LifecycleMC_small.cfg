SPECIFICATION Spec
CONSTANTS
  KindSet = {"handler", "sink", "qsensor", "builder"}
  RunDurs = {0, 2}
  MaxOps = 6
  MaxAssets = 3
  MaxSys = 2
  EmitHist = FALSE
VIEW view
CHECK_DEADLOCK FALSE
INVARIANT InvInitAtMostOnce
INVARIANT InvInitedOnceSimulated
INVARIANT OnlyLatestRuns
PROPERTY RegistrationIsForever
