SPECIFICATION Spec
CONSTANTS
  Level = 1
  RunDurs = {0, 1, 4}
  MaxOps = 4
  MaxNow = 12
  EmitHist = FALSE
VIEW view
CONSTRAINT Bound
CHECK_DEADLOCK FALSE
INVARIANT NonCyclicalStaysLast
PROPERTY StateIsTimetable
PROPERTY RecordsAreTimetable
PROPERTY ActionsAtChanges
