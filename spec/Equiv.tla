------------------------------- MODULE Equiv -------------------------------
(***************************************************************************)
(* C14 on recorded runs: two-run equivalence.  Each line pairs the k-th    *)
(* recorded step (event, observations and complete projected state, with   *)
(* asset ids replaced by creation-order numbers) of two runs of the real   *)
(* package that must evolve identically:                                   *)
(*   sameseed : same model, same seed, the second run after the global     *)
(*              asset-id counter was advanced                              *)
(*   split    : one run of a + b against consecutive runs of a and b with   *)
(*              the tie-break choices held fixed (TERMINATE dispatches and  *)
(*              run boundaries left out)                                   *)
(*   multi    : System.simulate_multiple_times in 0, 1, 2, 4 or default    *)
(*              many worker processes against in-process runs per index    *)
(* a and b are the canonical serialisations of the two steps.              *)
(***************************************************************************)
EXTENDS TLC, Json, IOUtils, Sequences, Integers

Log == ndJsonDeserialize(IOEnv.TRACE_FILE)
VARIABLE l

C(name, ok) == IF ok THEN {} ELSE {name}

Failed(i) ==
    LET ev == Log[i].ev IN
    CASE ev.what = "sameseed" -> C("C14.SameSeedSameRun", Log[i].a = Log[i].b /\ ev.na = ev.nb)
      [] ev.what = "split"    -> C("C14.SplitRunSameEvolution", Log[i].a = Log[i].b /\ ev.na = ev.nb)
      [] ev.what = "multi"    -> C("C14.MultiRunSameAsInProcess", Log[i].a = Log[i].b)
                                 \cup C("C14.MultiRunOnePerIndexInOrder",
                                        ev.returned = ev.n /\ ev.index = ev.pos)
      [] OTHER -> {"X.UnknownPair"}

Report(i) == \A c \in Failed(i) : PrintT(<<"FAIL", Log[i].tid, Log[i].k, c>>)
Init == l = 1 /\ Report(1)
Next == /\ l < Len(Log)
        /\ l' = l + 1
        /\ Report(l + 1)
        /\ (l + 1 = Len(Log) => PrintT(<<"DONE", Len(Log)>>))
Spec == Init /\ [][Next]_l
=============================================================================
