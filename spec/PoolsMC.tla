------------------------------ MODULE PoolsMC ------------------------------
(***************************************************************************)
(* Closed specification of the resource pools: an arbitrary client adds    *)
(* and removes capacity (before and after initialisation), reserves,       *)
(* releases (fully, partially, repeatedly, wrongly), merges, registers     *)
(* waiting requests and lets simulated time pass; callbacks issue calls    *)
(* from inside availability checks.  TLC explores every sequence within    *)
(* the bounds.  hist records the calls (with the outcome the specification *)
(* expects) so that behaviours can be replayed on the real ResourceManager.*)
(***************************************************************************)
EXTENDS Pools, TLC, Json

CONSTANTS AddRes, Cbs, RunDurs, MaxOps, MaxHold, MaxWait, ReqLevel, EmitHist

(* the cfg syntax has no negative literals: amounts are chosen by level *)
AddAmts == IF ReqLevel = 1 THEN {-2, -1, 1, 2} ELSE {-3, -2, -1, 1, 2, 3}
Amts == {-1, 0, 1, 2}

VARIABLES P, mode, runD, nops, reduced, hist

vars == <<P, mode, runD, nops, reduced, hist>>
view == <<P, mode, runD, nops, reduced>>

Single == {[x \in {r} |-> n] : r \in U, n \in Amts}
Double == {[x \in {"A", "B"} |-> IF x = "A" THEN a ELSE b] : a \in Amts, b \in Amts}
Mixed  == {[x \in {"A", "Z"} |-> IF x = "A" THEN 1 ELSE z] : z \in {0, 1}}
Empty == {[x \in {} |-> 0]}                 \* the empty dictionary: reserves / releases nothing
Reqs == IF ReqLevel = 1 THEN {q \in Single \cup Double : \A r \in DOMAIN q : q[r] \in {-1, 0, 1}} \cup Mixed \cup Empty
        ELSE Single \cup Double \cup Mixed \cup Empty
WaitReqs == {q \in Reqs : ~HasNeg(q) /\ \E r \in DOMAIN q : q[r] > 0}

Init == /\ P = InitP /\ mode = "idle" /\ runD = 0 /\ nops = 0
        /\ reduced = [r \in U |-> FALSE] /\ hist = <<>>

Rec(h) == /\ hist' = Append(hist, h) /\ nops' = nops + 1
Idle == mode = "idle" /\ nops < MaxOps
Same == UNCHANGED <<mode, runD>>

OpAdd == /\ Idle
         /\ \E r \in AddRes, n \in AddAmts :
              LET x == Add(P, r, n) IN
              /\ P' = x.P
              /\ reduced' = [reduced EXCEPT ![r] = @ \/ (x.out = "ok" /\ n < 0 /\ x.P.pool[r].cap < x.P.pool[r].used)]
              /\ Rec([op |-> "add", r |-> r, n |-> n, out |-> x.out])
         /\ Same

OpInit == /\ Idle /\ ~P.inited
          /\ P' = Initialize(P)
          /\ Rec([op |-> "init"])
          /\ UNCHANGED reduced /\ Same

OpReserve == /\ Idle /\ P.inited /\ Len(P.hold) < MaxHold
             /\ \E q \in Reqs :
                  LET x == Reserve(P, q) IN
                  /\ P' = x.P
                  /\ Rec([op |-> "reserve", req |-> q, out |-> x.out])
             /\ UNCHANGED reduced /\ Same

OpRelease == /\ Idle /\ P.inited
             /\ \E i \in DOMAIN P.hold :
                  \/ LET x == Release(P, i, TRUE, <<>>) IN
                     /\ P' = x.P
                     /\ Rec([op |-> "release", rid |-> i, all |-> TRUE, what |-> Zero, out |-> x.out])
                  \/ \E q \in Reqs :
                     LET x == Release(P, i, FALSE, q) IN
                     /\ P' = x.P
                     /\ Rec([op |-> "release", rid |-> i, all |-> FALSE, what |-> q, out |-> x.out])
             /\ UNCHANGED reduced /\ Same

OpMerge == /\ Idle /\ P.inited
           /\ \E i, j \in DOMAIN P.hold :
                /\ i # j
                /\ P' = Merge(P, i, j).P
                /\ Rec([op |-> "merge", i |-> i, j |-> j, out |-> "ok"])
           /\ UNCHANGED reduced /\ Same

OpRegister == /\ Idle /\ P.inited /\ Len(P.waitq) < MaxWait
              /\ \E q \in WaitReqs, c \in Cbs :
                   /\ P' = Register(P, q, c).P
                   /\ Rec([op |-> "register", req |-> q, cb |-> c, out |-> "ok"])
              /\ UNCHANGED reduced /\ Same

OpRun == /\ Idle /\ P.inited
         /\ \E d \in RunDurs :
              /\ runD' = d
              /\ Rec([op |-> "run", d |-> d])
         /\ mode' = "running"
         /\ UNCHANGED <<P, reduced>>

(* inside run(d): the availability checks scheduled for this instant *)
CheckStep == /\ mode = "running" /\ P.pend > 0
             /\ P' = Check(P)
             /\ UNCHANGED <<mode, runD, nops, reduced, hist>>

(* nothing left at this instant: the clock advances to the end of the run *)
RunEnd == /\ mode = "running" /\ P.pend = 0
          /\ P' = Advance(P, runD)
          /\ mode' = "idle"
          /\ UNCHANGED <<runD, nops, reduced, hist>>

Next == OpAdd \/ OpInit \/ OpReserve \/ OpRelease \/ OpMerge \/ OpRegister \/ OpRun \/ CheckStep \/ RunEnd

Spec == Init /\ [][Next]_vars

Bound == Len(P.hold) <= MaxHold + 2 /\ Len(P.waitq) <= MaxWait + 2 /\ P.pend <= 8

----------------------------------------------------------------------------
(* C09 *)
InvUsageIsHeld == UsageIsHeld(P)
InvCapNonNeg == CapNonNeg(P)
InvHoldNonNeg == HoldNonNeg(P)
InvOverOnlyAfterReduce == \A r \in U : Over(P, r) => reduced[r]
(* C10 *)
InvCalledAtMostOnce == NoDupCalls(P)
(* the clock only advances when no feasible request is still waiting *)
QuiescentNoFeasibleWaiter == [][P'.now > P.now => NoFeasibleWaiter(P)]_vars
(* every registration, effective capacity change and release leaves a check pending *)
ChangeSchedulesCheck ==
    [][(mode = "idle" /\ mode' = "idle" /\ P.inited /\
        (P'.pool # P.pool \/ Len(P'.waitq) > Len(P.waitq)) /\ Len(P'.hold) = Len(P.hold))
       => P'.pend > P.pend]_vars
CalledOnlyWhenFits ==
    [][Len(P'.calls) > Len(P.calls) => \E i \in DOMAIN P.waitq : Fits(P.pool, P.waitq[i].req)]_vars

HistOut == (EmitHist /\ mode = "idle" /\ nops >= MaxOps) => PrintT(<<"HIST", ToJson(hist)>>)
=============================================================================
