------------------------------ MODULE Sensors ------------------------------
(***************************************************************************)
(* Sensors of simprocesd (model/sensors/sensor.py, part_sensor.py,         *)
(* model/cms/cms.py): a periodic sensor P probing an object X, and an      *)
(* output-part sensor Q attached to a processor.                           *)
(*                                                                         *)
(* W = [now, started, X, P, Q, cms]                                        *)
(*   X = [x, lst]: the probed object (x an integer, lst a list changed in  *)
(*       place); P probes <<x, lst, 2x>>                                   *)
(*   a sensor record Z = [cap, count, tcount, tser, ser, last, cbs]        *)
(*       cap   : data capacity (Inf = unbounded)                           *)
(*       count : measurements taken (periodic ones and those made by hand) *)
(*       tcount: entries ever appended to the time series (periodic ones)  *)
(*       tser  : the time series (periodic sensor only)                    *)
(*       ser   : one series per probe                                      *)
(*       last  : values of the last measurement                            *)
(*       cbs   : on-sense callbacks in registration order                  *)
(*   P also has iv (interval, ticks) and next (time of next measurement);  *)
(*   Q has n (sensing interval), nfin (parts its processor finished) and   *)
(*   cnt (the countdown to the next measurement)                           *)
(*   cms : the sensors registered with the condition-monitoring system     *)
(***************************************************************************)
EXTENDS Integers, Sequences, FiniteSets

Inf == 99
Trim(s, c) == IF c # Inf /\ Len(s) > c THEN SubSeq(s, Len(s) - c + 1, Len(s)) ELSE s

NewSensor(cap, nprobes) == [cap |-> cap, count |-> 0, tcount |-> 0, tser |-> <<>>, ser |-> [i \in 1..nprobes |-> <<>>],
                            last |-> <<>>, cbs |-> <<>>]

InitW(iv, pcap, n, qcap) ==
    [now |-> 0, started |-> FALSE, X |-> [x |-> 0, lst |-> <<>>],
     P |-> [z |-> NewSensor(pcap, 3), iv |-> iv, next |-> 0],
     Q |-> [z |-> NewSensor(qcap, 2), n |-> n, nfin |-> 0, cnt |-> 0],
     cms |-> {}]

(* one measurement: a value per probe, every series keeps the most recent cap entries *)
Measure(z, vals, now, withTime) ==
    [z EXCEPT !.count = @ + 1,
              !.tcount = IF withTime THEN @ + 1 ELSE @,
              !.ser = [i \in DOMAIN @ |-> Trim(Append(@[i], vals[i]), z.cap)],
              !.tser = IF withTime THEN Trim(Append(@, now), z.cap) ELSE @,
              !.last = vals]

PVals(W) == <<W.X.x, W.X.lst, 2 * W.X.x>>

Start(W) == [W EXCEPT !.started = TRUE, !.P.next = W.now + W.P.iv]

(* the probed object changes (the list in place) *)
Bump(W) == [W EXCEPT !.X.x = @ + 1, !.X.lst = Append(@, W.X.x + 1)]

AddCb(W, s, id) == IF s = "P" THEN [W EXCEPT !.P.z.cbs = Append(@, id)] ELSE [W EXCEPT !.Q.z.cbs = Append(@, id)]
CmsId == 9
CmsAdd(W, s) == IF s \in W.cms THEN W ELSE AddCb([W EXCEPT !.cms = @ \cup {s}], s, CmsId)

(* PeriodicSensor._periodic_sense *)
PSense(W) == [W EXCEPT !.now = W.P.next, !.P.z = Measure(@, PVals(W), W.P.next, TRUE), !.P.next = @ + W.P.iv]

(* sense() called by hand on the periodic sensor: a measurement without a time-series entry *)
ManualSense(W) == [W EXCEPT !.P.z = Measure(@, PVals(W), W.now, FALSE)]

(* OutputPartSensor._probe_part on a finished part with values vals *)
Measures(W) == W.Q.cnt - 1 < 0
Finish(W, vals) ==
    IF Measures(W) THEN [W EXCEPT !.Q.nfin = @ + 1, !.Q.z = Measure(@, vals, W.now, FALSE), !.Q.cnt = W.Q.n]
    ELSE [W EXCEPT !.Q.nfin = @ + 1, !.Q.cnt = @ - 1]

----------------------------------------------------------------------------
Min(a, b) == IF b # Inf /\ b < a THEN b ELSE a
Bounded(z, timed) == /\ \A i \in DOMAIN z.ser : Len(z.ser[i]) = Min(z.count, z.cap)
                     /\ (timed => Len(z.tser) = Min(z.tcount, z.cap))
=============================================================================
