------------------------------- MODULE Maint -------------------------------
(***************************************************************************)
(* The Maintainer of simprocesd (model/factory_floor/maintainer.py) with   *)
(* scripted Maintainable targets.                                          *)
(*                                                                         *)
(* M = [now, cap, prog, queue, active, util, cost, evq, started]           *)
(*   cap     : the maintainer's capacity (Inf stands for float('inf'))     *)
(*   prog    : which hook program the targets run (see Hook)               *)
(*   queue   : sequence of waiting orders  [t, g, c]  (target, tag, needed)*)
(*   active  : sequence of orders in progress (selected, maybe not started)*)
(*   util    : capacity in use                                             *)
(*   cost    : total cost charged so far (minus the maintainer's value)    *)
(*   evq     : the maintainer's pending events [kind, t, g, time]          *)
(*   started : orders whose start hook ran and whose end hook did not yet  *)
(*             [t, g, at, dur] (dur = duration reported at start)          *)
(* A live order is identified by (target, tag): duplicates are rejected.   *)
(* Targets report needed capacity, duration and cost from the tables below *)
(* (shared with the Python driver); T2's durations grow by one from time 4 *)
(* on, so "the duration reported at start" differs from the one at request.*)
(***************************************************************************)
EXTENDS Integers, Sequences, FiniteSets

Inf == 99
Targets == {"T1", "T2", "T3"}
Tags == {"x", "y"}

CapOf(t, g)  == CASE t = "T1" /\ g = "x" -> 1 [] t = "T1" /\ g = "y" -> 2
                  [] t = "T2" /\ g = "x" -> 0 [] t = "T2" /\ g = "y" -> 3
                  [] OTHER -> 1
BaseDur(t, g) == CASE t = "T1" /\ g = "x" -> 2 [] t = "T1" /\ g = "y" -> 0
                   [] t = "T2" /\ g = "x" -> 5 [] t = "T2" /\ g = "y" -> 2
                   [] OTHER -> 0
DurOf(t, g, now) == BaseDur(t, g) + (IF t = "T2" /\ now >= 4 THEN 1 ELSE 0)
CostOf(t, g) == CASE t = "T1" /\ g = "x" -> 1 [] t = "T1" /\ g = "y" -> 0
                  [] t = "T2" /\ g = "x" -> 3 [] t = "T2" /\ g = "y" -> 2
                  [] OTHER -> 1

Range(s) == {s[i] : i \in DOMAIN s}
RemoveAt(s, i) == SubSeq(s, 1, i - 1) \o SubSeq(s, i + 1, Len(s))

InitM(cap, prog) == [now |-> 0, cap |-> cap, prog |-> prog, queue |-> <<>>, active |-> <<>>,
                     util |-> 0, cost |-> 0, evq |-> {}, started |-> {}]

Dup(M, t, g) == \E o \in Range(M.queue) \cup Range(M.active) : o.t = t /\ o.g = g
TargetBusy(M, t) == \E o \in Range(M.active) : o.t = t
FitsNow(M, o) == M.util <= M.cap - o.c
Startable(M, o) == FitsNow(M, o) /\ ~TargetBusy(M, o.t)

(* try_working_requests: in-order greedy scan *)
RECURSIVE Scan(_, _)
Scan(M, i) ==
    IF i > Len(M.queue) THEN M
    ELSE LET o == M.queue[i] IN
         IF Startable(M, o)
         THEN Scan([M EXCEPT !.queue = RemoveAt(@, i), !.active = Append(@, o), !.util = @ + o.c,
                             !.evq = @ \cup {[kind |-> "start", t |-> o.t, g |-> o.g, time |-> M.now]}], i)
         ELSE Scan(M, i + 1)

(* create_work_order(target, tag) *)
Create(M, t, g) ==
    IF Dup(M, t, g) THEN [M |-> M, ret |-> FALSE]
    ELSE [M |-> Scan([M EXCEPT !.queue = Append(@, [t |-> t, g |-> g, c |-> CapOf(t, g)])], 1), ret |-> TRUE]

(* Hook programs: requests issued from inside other orders' hooks.          *)
(*  1: start_work of T1 (any tag) requests (T2, x)                          *)
(*  2: end_work of (T1, x) requests (T1, y)  -- same target, still active   *)
(*  3: end_work of T2 (any tag) requests (T1, x)                            *)
Hook(M, kind, t, g) ==
    CASE M.prog = 1 /\ kind = "start" /\ t = "T1"         -> Create(M, "T2", "x").M
      [] M.prog = 2 /\ kind = "end" /\ t = "T1" /\ g = "x" -> Create(M, "T1", "y").M
      [] M.prog = 3 /\ kind = "end" /\ t = "T2"           -> Create(M, "T1", "x").M
      [] OTHER -> M

Prio(e) == IF e.kind = "finish" THEN 100 ELSE 30
Before(e, f) == e.time < f.time \/ (e.time = f.time /\ Prio(e) > Prio(f))
MinEvents(Q) == {e \in Q : \A f \in Q : ~Before(f, e)}

(* _start_work_order *)
StartWork(M, e) ==
    LET d == DurOf(e.t, e.g, e.time)
        M1 == [M EXCEPT !.now = e.time, !.evq = @ \ {e}, !.cost = @ + CostOf(e.t, e.g),
                        !.started = @ \cup {[t |-> e.t, g |-> e.g, at |-> e.time, dur |-> d]}]
        M2 == Hook(M1, "start", e.t, e.g) IN
    [M2 EXCEPT !.evq = @ \cup {[kind |-> "finish", t |-> e.t, g |-> e.g, time |-> e.time + d]}]

(* _finish_work_order *)
FinishWork(M, e) ==
    LET M1 == Hook([M EXCEPT !.now = e.time, !.evq = @ \ {e}], "end", e.t, e.g)
        i == CHOOSE j \in DOMAIN M1.active : M1.active[j].t = e.t /\ M1.active[j].g = e.g
        o == M1.active[i] IN
    Scan([M1 EXCEPT !.util = @ - o.c, !.active = RemoveAt(@, i),
                    !.started = {s \in @ : ~(s.t = e.t /\ s.g = e.g)}], 1)

Dispatch(M, e) == IF e.kind = "start" THEN StartWork(M, e) ELSE FinishWork(M, e)

----------------------------------------------------------------------------
RECURSIVE SumC(_, _)
SumC(s, n) == IF n = 0 THEN 0 ELSE s[n].c + SumC(s, n - 1)

CapacityOK(M) == M.util <= M.cap /\ M.util = SumC(M.active, Len(M.active))
OnePerTarget(M) == \A i, j \in DOMAIN M.active : M.active[i].t = M.active[j].t => i = j
NoDupOrders(M) == \A i, j \in DOMAIN (M.queue \o M.active) :
                     LET s == M.queue \o M.active IN (s[i].t = s[j].t /\ s[i].g = s[j].g) => i = j
NoStartableLeft(M) == \A i \in DOMAIN M.queue : ~Startable(M, M.queue[i])
=============================================================================
