------------------------------ MODULE MaintMC ------------------------------
(***************************************************************************)
(* Closed specification of the maintainer: an arbitrary client requests    *)
(* work orders (duplicates, bursts in one instant, needed capacities 0 and *)
(* more than the total, durations 0) and lets simulated time pass; targets *)
(* request further orders from inside their hooks.  Step picks any minimal *)
(* pending event, so TLC explores every tie-break between simultaneous     *)
(* START_WORK events.                                                      *)
(***************************************************************************)
EXTENDS Maint, TLC, Json

CONSTANTS Caps, Progs, ReqTargets, RunDurs, MaxOps, MaxNow, EmitHist

VARIABLES M, mode, runEnd, nops, hist

vars == <<M, mode, runEnd, nops, hist>>
view == <<M, mode, runEnd, nops>>

Init == /\ \E c \in Caps, p \in Progs :
              /\ M = InitM(c, p)
              /\ hist = <<[op |-> "cfg", cap |-> c, prog |-> p]>>
        /\ mode = "idle" /\ runEnd = 0 /\ nops = 0

Rec(h) == /\ hist' = Append(hist, h) /\ nops' = nops + 1
Idle == mode = "idle" /\ nops < MaxOps

OpCreate == /\ Idle
            /\ \E t \in ReqTargets, g \in Tags :
                 LET x == Create(M, t, g) IN
                 /\ M' = x.M
                 /\ Rec([op |-> "create", t |-> t, g |-> g, ret |-> x.ret])
            /\ UNCHANGED <<mode, runEnd>>

OpRun == /\ Idle
         /\ \E d \in RunDurs :
              /\ runEnd' = M.now + d
              /\ Rec([op |-> "run", d |-> d])
         /\ mode' = "running"
         /\ UNCHANGED M

Due == {e \in M.evq : e.time <= runEnd}

RunStep == /\ mode = "running" /\ Due # {}
           /\ \E e \in MinEvents(M.evq) :
                M' = Dispatch(M, e)
           /\ UNCHANGED <<mode, runEnd, nops, hist>>

RunEnd == /\ mode = "running" /\ Due = {}
          /\ M' = [M EXCEPT !.now = runEnd]
          /\ mode' = "idle"
          /\ UNCHANGED <<runEnd, nops, hist>>

Next == OpCreate \/ OpRun \/ RunStep \/ RunEnd
Spec == Init /\ [][Next]_vars

Bound == M.now <= MaxNow

----------------------------------------------------------------------------
InvCapacityOK == CapacityOK(M)
InvOnePerTarget == OnePerTarget(M)
InvNoDupOrders == NoDupOrders(M)
(* an order in progress has a pending start or finish event, and nothing else has *)
InvEventsMatchActive ==
    /\ \A o \in Range(M.active) : \E e \in M.evq : e.t = o.t /\ e.g = o.g
    /\ \A e \in M.evq : \E o \in Range(M.active) : e.t = o.t /\ e.g = o.g
(* whenever the clock advances no queued order that fits and whose target is free is left *)
QuiescentNoStartableLeft == [][M'.now > M.now => NoStartableLeft(M)]_vars
(* a finish event fires exactly the reported duration after the start *)
ExactDuration ==
    [][\A s \in M.started \ M'.started : M'.now = s.at + s.dur]_vars
CostOnlyAtStart == [][M'.cost # M.cost => Cardinality(M'.started \ M.started) = 1]_vars

HistOut == (EmitHist /\ mode = "idle" /\ nops >= MaxOps) => PrintT(<<"HIST", ToJson(hist)>>)
=============================================================================
