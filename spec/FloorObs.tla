------------------------------ MODULE FloorObs ------------------------------
(***************************************************************************)
(* Property observers for the factory floor.  Each clause is a predicate   *)
(* over a recorded (or specified) step: the state before (pre), the event  *)
(* or call (ev, with what the tracer saw through public callbacks: ev.occ, *)
(* ev.sd, ev.recs, ev.vh), the state after (post), and the observer's own  *)
(* history variables (aux, updated by AuxNext).  A clause constrains only  *)
(* what its property states.  Clause names start with the property id.     *)
(*                                                                         *)
(* ev.occ  : <<kind, dev, part, quality, value, cycle, offset>> occurrences*)
(*           seen by receive ("recv") and finish-processing ("prod")       *)
(*           callbacks, in order                                           *)
(* ev.sd   : <<"down"|"up", dev, callback number, isFailure, part>>        *)
(* ev.recs : <<label, device name, time, a, b, c>> datapoints written      *)
(* ev.vh   : <<dev, time, delta, total>> value-history entries appended    *)
(***************************************************************************)
EXTENDS Floor

C(name, ok) == IF ok THEN {} ELSE {name}
Min(a, b) == IF a < b THEN a ELSE b
SeqSum(s) == LET RECURSIVE f(_) f(i) == IF i > Len(s) THEN 0 ELSE s[i] + f(i + 1) IN f(1)
Count(s, x) == Cardinality({i \in DOMAIN s : s[i] = x})
Sel(s, T(_)) == SelectSeq(s, T)
DevNm(d) == "d" \o ToString(d)

HoldDevs == {d \in Devs : Kind(d) \in Holding}
Procs == {d \in Devs : Kind(d) = "processor"}
Buffers == {d \in Devs : Kind(d) = "buffer"}
Sources == {d \in Devs : Kind(d) = "source"}
Sinks == {d \in Devs : Kind(d) = "sink"}
ResProcs == {d \in Procs : NeedsRes(d)}

IsStep(ev) == ev.op = "step"
IsFailOf(ev, d) == IsStep(ev) /\ ev.kind = "fail" /\ ev.asset = d /\ ~ev.cancelled
IsScript(ev, call) == IsStep(ev) /\ ev.kind = "script" /\ ~ev.cancelled /\ cfg.script[ev.arg].call = call
ScriptOn(ev, call, d) == IsScript(ev, call) /\ cfg.script[ev.arg].dev = d
Occ(ev, kind, d) == Sel(ev.occ, LAMBDA o : o[1] = kind /\ o[2] = d)
Recs(ev, label, d) == Sel(ev.recs, LAMBDA r : r[1] = label /\ r[2] = DevNm(d))

(* the clock is about to advance (or nothing is left to do) *)
MinTime(Q) == IF Q = {} THEN 1000000 ELSE (CHOOSE e \in Q : \A f \in Q : e.time <= f.time).time
Quiescent(S) == MinTime(S.q) > S.now

(***************************************************************************)
(* History variables                                                       *)
(***************************************************************************)
AuxInit == [rem      |-> [d \in Devs |-> 0],          \* C06: operational time still owed to the part in process
            off      |-> [d \in Devs |-> 0],          \* C06: one-shot offset booked for the next cycle (public calls)
            upAcc    |-> [d \in Devs |-> 0],          \* C13: time operational
            utAcc    |-> [d \in Devs |-> 0],          \* C13: time processing
            budget   |-> [d \in Devs |-> cfg.devs[d].budget],   \* C02: part budget by the documented rule
            lastLeft |-> [d \in Devs |-> 0],          \* C06: when the source's previous part left it
            lastRecv |-> [d \in Devs |-> None],       \* C06: when the sink received its previous part
            arr      |-> [d \in Devs |-> <<>>],       \* C04: arrival times per station
            cost     |-> [d \in Devs |-> 0],          \* C16: summed value of supplied parts at supply
            rev      |-> [d \in Devs |-> 0],          \* C16: summed value of received parts at receipt
            idle     |-> [d \in Devs |-> 0],          \* C08: since when the device has been idle (empty and operational)
            idleLo   |-> [d \in Devs |-> 0],          \* C08: the earliest defensible reading of the same (see AuxNext)
            idleMark |-> [d \in Devs |-> FALSE],      \* C08: idleLo was set during the current outage
            join     |-> <<>>,                        \* C17: routing history of each part when it joined its batch
            inSeq    |-> [d \in Devs |-> <<>>],       \* C17: leaf parts in arrival order
            outSeq   |-> [d \in Devs |-> <<>>],       \* C17: leaf parts in leaving order
            wo       |-> [d \in Devs |-> <<>>],       \* C13: <<start, duration, overridden by hand>> of the work order in progress on d
            everDown |-> [d \in Devs |-> FALSE],      \* C13: the processor has been down at some time
            disp     |-> <<>>,                        \* C15: dispatched events <<time, device, kind, priority>>
            runEnd   |-> None,                        \* C01: end of the current run
            steps    |-> <<0, 0>>]                    \* C03: <<instant, events dispatched in it>>

Supplied(pre, post, s) == post.dev[s].supplied - pre.dev[s].supplied
(* leaf parts that joined an output batch of batcher d in this step *)
InBatchAt(S, d) == Range(S.dev[d].inprog) \cup (IF S.dev[d].out # 0 /\ S.part[S.dev[d].out].batch
                                                  THEN Range(S.part[S.dev[d].out].leaves) ELSE {})
JoinedAt(pre, post, d) == IF cfg.devs[d].bsize > 0 THEN InBatchAt(post, d) \ InBatchAt(pre, d) ELSE {}
FreeDev(S, d) == S.dev[d].inp = 0 /\ S.dev[d].out = 0 /\ S.dev[d].buf = <<>>
(* leaves of the items device d received in this step, in arrival order (as they were before the step) *)
ArrivedLeaves(pre, ev, d) ==
    LET rc == Occ(ev, "recv", d) IN
    LET RECURSIVE cat(_)
        cat(i) == IF i > Len(rc) THEN <<>> ELSE LeavesOf(pre, rc[i][3]) \o cat(i + 1)
    IN cat(1)

(* The cycle time owed to a part is decided by the configuration and the public calls made so far:   *)
(* cycle time in effect after the receive callbacks, plus the one-shot offsets booked since the last *)
(* accept (by receive callbacks for even parts, by finish callbacks for every part), floored at 0.   *)
RECURSIVE FoldOcc(_, _, _, _, _, _)
FoldOcc(S, occ, d, i, off, rem) ==
    IF i > Len(occ) THEN [off |-> off, rem |-> rem]
    ELSE LET o == occ[i] IN
         IF o[2] # d THEN FoldOcc(S, occ, d, i + 1, off, rem)
         ELSE IF o[1] = "recv"
              THEN LET p == o[3]
                       booked == off + (IF ~S.part[p].batch /\ S.part[p].seq % 2 = 0
                                        THEN cfg.devs[d].offmod + cfg.devs[d].offmod2 ELSE 0) IN
                   FoldOcc(S, occ, d, i + 1, 0, Max(0, CycleInEffect(S, d, p) + booked))
              ELSE FoldOcc(S, occ, d, i + 1, off + cfg.devs[d].foff, rem)
OwedAtAccept(S, aux, occ, d, i) ==      \* what the i-th occurrence (a receipt at d) owes
    FoldOcc(S, SubSeq(occ, 1, i), d, 1, aux.off[d], 0).rem

AuxNext(aux, pre, ev, post) ==
    LET dt == post.now - pre.now IN
    [rem |-> [d \in Devs |->
                LET r0 == IF d \in HoldDevs /\ pre.dev[d].inp # 0 /\ Operational(pre, d) THEN aux.rem[d] - dt ELSE aux.rem[d] IN
                FoldOcc(post, ev.occ, d, 1, aux.off[d], r0).rem],
     off |-> [d \in Devs |-> FoldOcc(post, ev.occ, d, 1, aux.off[d], 0).off],
     upAcc |-> [d \in Devs |-> IF d \in Procs /\ ~pre.dev[d].down THEN aux.upAcc[d] + dt ELSE aux.upAcc[d]],
     utAcc |-> [d \in Devs |-> IF d \in Procs /\ ~pre.dev[d].down /\ pre.dev[d].inp # 0 THEN aux.utAcc[d] + dt ELSE aux.utAcc[d]],
     budget |-> [d \in Devs |->
                   IF d \in Sources /\ aux.budget[d] # None /\ ScriptOn(ev, "adjust", d)
                   THEN Max(aux.budget[d] + cfg.script[ev.arg].arg, pre.dev[d].supplied) ELSE aux.budget[d]],
     lastLeft |-> [d \in Devs |-> IF d \in Sources /\ Supplied(pre, post, d) > 0 THEN post.now ELSE aux.lastLeft[d]],
     lastRecv |-> [d \in Devs |-> IF d \in Sinks /\ Occ(ev, "recv", d) # <<>> THEN post.now ELSE aux.lastRecv[d]],
     arr |-> [d \in Devs |-> aux.arr[d] \o [i \in DOMAIN Occ(ev, "recv", d) |-> post.now]],
     cost |-> [d \in Devs |-> IF d \in Sources /\ Supplied(pre, post, d) > 0 /\ pre.dev[d].out # 0
                              THEN aux.cost[d] + ValueOf(pre, pre.dev[d].out) ELSE aux.cost[d]],
     rev |-> [d \in Devs |-> aux.rev[d] + SeqSum([i \in DOMAIN Occ(ev, "recv", d) |-> Occ(ev, "recv", d)[i][5]])],
     idle |-> [d \in Devs |->
                 IF d \in HoldDevs /\ ( (~FreeDev(pre, d) /\ FreeDev(post, d))
                                         \/ (Occ(ev, "recv", d) # <<>> /\ FreeDev(post, d))      \* received and finished in zero time
                                         \/ (d \in Procs /\ pre.dev[d].down /\ ~post.dev[d].down)
                                         \* replacing a waiting device's connections restarts its waiting time (documented in the code)
                                         \/ (ScriptOn(ev, "rewire", d) /\ FreeDev(post, d) /\ Operational(post, d)) )
                 THEN post.now ELSE aux.idle[d]],
     \* "Idle longest" has two defensible readings for an empty machine whose input is unblocked while it is down:
     \* idle since that moment (it has been asking for a part since then - the code's waiting clock) or since its
     \* restoration (only then could it take one).  idleLo keeps the earlier reading; both are accepted.
     idleLo |-> [d \in Devs |->
                 IF d \in Procs /\ pre.dev[d].down /\ post.dev[d].down /\ pre.dev[d].blocked /\ ~post.dev[d].blocked
                    /\ FreeDev(post, d) /\ ~aux.idleMark[d]
                 THEN post.now
                 ELSE IF d \in Procs /\ pre.dev[d].down /\ ~post.dev[d].down /\ aux.idleMark[d] /\ FreeDev(post, d)
                                    /\ FreeDev(pre, d) /\ ~ScriptOn(ev, "rewire", d)
                 THEN aux.idleLo[d]
                 ELSE IF d \in HoldDevs /\ ( (~FreeDev(pre, d) /\ FreeDev(post, d))
                                         \/ (Occ(ev, "recv", d) # <<>> /\ FreeDev(post, d))
                                         \/ (d \in Procs /\ pre.dev[d].down /\ ~post.dev[d].down)
                                         \/ (ScriptOn(ev, "rewire", d) /\ FreeDev(post, d) /\ Operational(post, d)) )
                 THEN post.now ELSE aux.idleLo[d]],
     idleMark |-> [d \in Devs |->
                 IF d \in Procs /\ post.dev[d].down
                 THEN (IF ~pre.dev[d].down THEN FALSE
                       ELSE aux.idleMark[d] \/ (pre.dev[d].blocked /\ ~post.dev[d].blocked /\ FreeDev(post, d)))
                 ELSE FALSE],
     join |-> [p \in DOMAIN post.part |->
                 IF \E d \in Devs : Kind(d) = "batcher" /\ p \in JoinedAt(pre, post, d) THEN post.part[p].hist
                 ELSE IF p \in DOMAIN aux.join THEN aux.join[p] ELSE <<>>],
     inSeq |-> [d \in Devs |-> IF Kind(d) = "batcher" THEN aux.inSeq[d] \o ArrivedLeaves(pre, ev, d) ELSE <<>>],
     outSeq |-> [d \in Devs |-> IF Kind(d) = "batcher" /\ pre.dev[d].out # 0 /\ post.dev[d].out # pre.dev[d].out
                                THEN aux.outSeq[d] \o LeavesOf(pre, pre.dev[d].out) ELSE aux.outSeq[d]],
     wo |-> [d \in Devs |-> IF IsStep(ev) /\ ~ev.cancelled /\ ev.kind = "mstart" /\ ev.arg \div 10 = d
                             THEN <<post.now, cfg.devs[d].wodur, FALSE>>
                             ELSE IF IsStep(ev) /\ ~ev.cancelled /\ ev.kind = "mfinish" /\ ev.arg \div 10 = d THEN <<>>
                             \* restore_functionality called by hand during the order overrides it (third field)
                             ELSE IF aux.wo[d] # <<>> /\ ScriptOn(ev, "restore", d) THEN <<aux.wo[d][1], aux.wo[d][2], TRUE>>
                             ELSE aux.wo[d]],
     everDown |-> [d \in Devs |-> aux.everDown[d] \/ (d \in Procs /\ post.dev[d].down)],
     disp |-> IF cfg.trace /\ IsStep(ev) /\ ~ev.direct THEN Append(aux.disp, <<ev.time, ev.asset, ev.kind, ev.prio>>) ELSE aux.disp,
     runEnd |-> IF ev.op \in {"init", "run_begin"} THEN pre.now + ev.d ELSE aux.runEnd,
     steps |-> IF post.now > pre.now THEN <<post.now, 1>> ELSE <<post.now, aux.steps[2] + (IF IsStep(ev) THEN 1 ELSE 0)>>]

(***************************************************************************)
(* C02  parts are conserved                                                *)
(***************************************************************************)
ItemsOf(S, d) ==      \* top-level items a device holds, as a sequence
    (IF S.dev[d].inp # 0 THEN <<S.dev[d].inp>> ELSE <<>>) \o (IF S.dev[d].out # 0 THEN <<S.dev[d].out>> ELSE <<>>)
    \o [i \in DOMAIN S.dev[d].buf |-> S.dev[d].buf[i][2]] \o S.dev[d].inprog
RECURSIVE LeavesOfSeq(_, _, _)
LeavesOfSeq(S, items, i) == IF i > Len(items) THEN <<>> ELSE LeavesOf(S, items[i]) \o LeavesOfSeq(S, items, i + 1)
InDevice(S, d) == IF Kind(d) = "sink" THEN <<>> ELSE LeavesOfSeq(S, ItemsOf(S, d), 1)
Delivered(S, d) == IF Kind(d) = "sink" THEN LeavesOfSeq(S, S.dev[d].collected, 1) ELSE <<>>
LostLeaves(S) == LeavesOfSeq(S, [i \in DOMAIN S.lost |-> S.lost[i][2]], 1)
RECURSIVE CatDevs(_, _, _)
CatDevs(S, F(_, _), d) == IF d > N THEN <<>> ELSE F(S, d) \o CatDevs(S, F, d + 1)
AllOcc(S) == CatDevs(S, InDevice, 1) \o CatDevs(S, Delivered, 1) \o LostLeaves(S)
LeafIds(S) == {p \in DOMAIN S.part : ~S.part[p].batch}

C02(pre, ev, post, aux) ==
    LET occ == AllOcc(post)
        a1 == AuxNext(aux, pre, ev, post) IN
    C("C02.ExactlyOnePlace", \A p \in LeafIds(post) : Count(occ, p) = 1)
    \cup C("C02.NothingInvented", Range(occ) \subseteq LeafIds(post))
    \cup C("C02.SingleSlot", \A d \in Devs : Kind(d) \in {"handler", "processor", "sink", "source"}
                                 => ~(post.dev[d].inp # 0 /\ post.dev[d].out # 0))
    \* a sink counts the members of a batch (Sink: len(part.parts)); for the batches of batches of the `nested-batch`
    \* family the members are the inner batches, the census above still follows every leaf
    \cup C("C02.SinkCountsEveryPart", \A d \in Sinks :
                post.dev[d].count = SeqSum([i \in DOMAIN post.dev[d].collected |-> NLeaves(post, post.dev[d].collected[i])]))
    \cup C("C02.BudgetRespected", \A s \in Sources : a1.budget[s] # None => post.dev[s].supplied <= a1.budget[s])
    \cup C("C02.LostOnlyByFailure", post.lost # pre.lost => (IsStep(ev) /\ ev.kind = "fail"))

(***************************************************************************)
(* C03  no lost wake-up                                                    *)
(***************************************************************************)
Free(S, x) == S.dev[x].inp = 0 /\ S.dev[x].out = 0
RECURSIVE WouldTake(_, _, _, _)
WouldTake(S, x, p, depth) ==
    IF depth > N + 2 THEN FALSE
    ELSE CASE Kind(x) = "gpath" -> ~S.dev[x].blocked /\ \E y \in Range(S.down[GInput(x)]) : WouldTake(S, y, p, depth + 1)
           [] Kind(x) = "goutput" -> S.part[p].gst # <<>> /\
                                     \E y \in Range(S.down[S.part[p].gst[Len(S.part[p].gst)]]) : WouldTake(S, y, p, depth + 1)
           [] Kind(x) \in {"gate", "junction"} -> Pred(S, x, p) /\ ~S.dev[x].blocked
                                   /\ \E y \in Range(S.down[x]) : WouldTake(S, y, p, depth + 1)
           [] Kind(x) = "buffer" -> ~S.dev[x].blocked /\ Free(S, x)
                                     /\ (cfg.devs[x].cap = None \/ S.dev[x].level + NLeaves(S, p) <= cfg.devs[x].cap)
           [] Kind(x) = "processor" -> ~S.dev[x].blocked /\ ~S.dev[x].down /\ Free(S, x)
                                        /\ (~NeedsRes(x) \/ S.dev[x].held \/ Fits(S, cfg.devs[x].req))
           [] OTHER -> ~S.dev[x].blocked /\ Free(S, x)
ReadyItem(S, d) ==
    IF Kind(d) = "buffer"
    THEN (IF S.dev[d].buf # <<>> /\ Head(S.dev[d].buf)[1] + cfg.devs[d].delay <= S.now THEN Head(S.dev[d].buf)[2] ELSE 0)
    ELSE IF S.dev[d].out # 0 /\ Operational(S, d) /\ (Kind(d) = "source" => Remaining(S, d) >= 1) THEN S.dev[d].out
    ELSE 0
InstantBound == 8 * (N + 6) * (N + 6)

C03(pre, ev, post, aux) ==
    LET a1 == AuxNext(aux, pre, ev, post) IN
    C("C03.NoLostWakeup",
      Quiescent(post) => \A d \in HoldDevs : ReadyItem(post, d) # 0 =>
                            \A x \in Range(post.down[d]) : ~WouldTake(post, x, ReadyItem(post, d), 0))
    \cup C("C03.NoFeasibleWaiter", Quiescent(post) => \A i \in DOMAIN post.waitq : ~Fits(post, cfg.devs[post.waitq[i]].req))
    \cup C("C03.BoundedInstant", a1.steps[2] <= InstantBound)

(***************************************************************************)
(* C04  serial-line timing equals the blocking-after-service recurrence    *)
(***************************************************************************)
(* station j of a serial line is device j + 1 (device 1 is the source, device N the sink) *)
SerialK(d) == IF Kind(d) = "buffer" THEN cfg.devs[d].cap ELSE 1
SerialC(d) == IF Kind(d) = "buffer" THEN cfg.devs[d].delay ELSE cfg.devs[d].cyc
ArrAt(arr, d, k) == IF k <= 0 THEN 0 ELSE arr[d][k]
(* arrival of the k-th part at device d >= 2, from arrivals already observed *)
RefArrival(arr, d, k) ==
    LET fromUp == IF d = 2 THEN ArrAt(arr, 2, k - 1) + cfg.devs[1].cyc     \* the source restarts when the previous part left
                  ELSE ArrAt(arr, d - 1, k) + SerialC(d - 1)
        order == ArrAt(arr, d, k - 1)
        space == IF d = N THEN (IF k > 1 THEN ArrAt(arr, N, k - 1) + cfg.devs[N].cyc ELSE 0)   \* the sink frees its slot c later
                 ELSE IF SerialK(d) = None THEN 0
                 ELSE (IF k - SerialK(d) >= 1 THEN arr[d + 1][k - SerialK(d)] ELSE 0)
    IN Max(fromUp, Max(order, space))
RefDefined(arr, d, k) ==      \* every term of RefArrival(arr, d, k) has been observed
    /\ (d > 2 => Len(arr[d - 1]) >= k)
    /\ Len(arr[d]) >= k - 1
    /\ (d < N /\ SerialK(d) # None /\ k - SerialK(d) >= 1 => Len(arr[d + 1]) >= k - SerialK(d))
WithinBudget(k) == cfg.devs[1].budget = None \/ k <= cfg.devs[1].budget

C04(pre, ev, post, aux) ==
    IF ~cfg.serial THEN {}
    ELSE LET a1 == AuxNext(aux, pre, ev, post) IN
         C("C04.ArrivalEqualsRecurrence",
           \A d \in 2..N : \A k \in (Len(aux.arr[d]) + 1)..Len(a1.arr[d]) :
                RefDefined(a1.arr, d, k) /\ a1.arr[d][k] = RefArrival(a1.arr, d, k))
         \cup C("C04.NothingLateAtEndOfRun",
                ev.op = "run_end" =>
                   \A d \in 2..N : LET k == Len(a1.arr[d]) + 1 IN
                        (RefDefined(a1.arr, d, k) /\ WithinBudget(k)) => RefArrival(a1.arr, d, k) > ev.t0 + ev.d)   \* the requested end
         \cup C("C04.SinkCountIsReference", post.dev[N].count = Len(a1.arr[N]))

(***************************************************************************)
(* C05  buffer contract                                                    *)
(***************************************************************************)
BufLeaves(S, b) == SeqSum([i \in DOMAIN S.dev[b].buf |-> NLeaves(S, S.dev[b].buf[i][2])])
C05(pre, ev, post, aux) ==
    C("C05.CapacityOK", \A b \in Buffers : cfg.devs[b].cap # None => BufLeaves(post, b) <= cfg.devs[b].cap)
    \cup C("C05.LevelIsContent", \A b \in Buffers : post.dev[b].level = BufLeaves(post, b))
    \cup C("C05.FifoAndDelay",
           \A b \in Buffers :
              LET o == pre.dev[b].buf
                  n == post.dev[b].buf IN
              \E i \in 0..Len(o) :
                 /\ Len(n) >= Len(o) - i
                 /\ SubSeq(n, 1, Len(o) - i) = SubSeq(o, i + 1, Len(o))                 \* only heads leave, order kept
                 /\ \A j \in 1..i : o[j][1] + cfg.devs[b].delay <= post.now              \* and only after the minimum delay
                 /\ \A j \in (Len(o) - i + 1)..Len(n) : n[j][1] = post.now)              \* arrivals are stamped now
    \cup C("C05.LeavesInArrivalOrder",
           \A b \in Buffers : \A i, j \in DOMAIN post.dev[b].buf : i < j => post.dev[b].buf[i][1] <= post.dev[b].buf[j][1])

(***************************************************************************)
(* C06  cycle times honoured exactly                                       *)
(***************************************************************************)
Timed == {d \in Devs : Kind(d) \in {"handler", "processor", "sink"}}
C06(pre, ev, post, aux) ==
    LET a1 == AuxNext(aux, pre, ev, post)
        dt == post.now - pre.now
        Owed(d) == aux.rem[d] - (IF Operational(pre, d) THEN dt ELSE 0)    \* what is still owed when this event runs
        Left(d) == pre.dev[d].inp # 0 /\ post.dev[d].inp # pre.dev[d].inp
    IN
    C("C06.NotLate", \A d \in Timed : (pre.dev[d].inp # 0 /\ Operational(pre, d)) => Owed(d) >= 0)
    \cup C("C06.NotEarly", \A d \in Timed : (Left(d) /\ ~IsFailOf(ev, d)) => Owed(d) = 0)
    \cup C("C06.ZeroCycleOnlyWhenOwedNothing",
           \A d \in Timed : \A i \in DOMAIN ev.occ :
               LET o == ev.occ[i] IN
               (o[1] = "recv" /\ o[2] = d /\ post.dev[d].inp # o[3]) => OwedAtAccept(post, aux, ev.occ, d, i) = 0)
    \cup C("C06.FinishedWhenOwedNothing",
           \* a part whose time is up does not stay in process while the clock advances
           \A d \in Timed : (post.dev[d].inp # 0 /\ Operational(post, d) /\ a1.rem[d] = 0) => ~Quiescent(post))
    \cup C("C06.CycleTimeInEffectIsTheConfigured",
           \* the public cycle_time read after the receive callbacks is the one the configuration prescribes
           \A i \in DOMAIN ev.occ : (ev.occ[i][1] = "recv" /\ ev.occ[i][2] \in Timed)
                                        => ev.occ[i][6] = CycleInEffect(post, ev.occ[i][2], ev.occ[i][3]))
    \cup C("C06.FailureLosesNotFinishes",
           \A d \in Procs : (IsFailOf(ev, d) /\ pre.dev[d].inp # 0) =>
                (post.dev[d].inp = 0 /\ post.dev[d].out = pre.dev[d].out /\ Occ(ev, "prod", d) = <<>>))
    \cup C("C06.OneAtATime",
           \* a second part is received in the same step only after the first was finished in zero time
           \A d \in Timed : LET rc == Occ(ev, "recv", d) IN
               /\ (rc # <<>> => pre.dev[d].inp = 0 /\ pre.dev[d].out = 0)
               /\ \A i \in DOMAIN ev.occ :
                     (ev.occ[i][1] = "recv" /\ ev.occ[i][2] = d /\ \E j \in (i + 1)..Len(ev.occ) : ev.occ[j][1] = "recv" /\ ev.occ[j][2] = d)
                        => OwedAtAccept(post, aux, ev.occ, d, i) = 0)
    \cup C("C06.ProducedOncePerPart", \A d \in Procs : Len(Occ(ev, "prod", d)) <= Max(1, Len(Occ(ev, "recv", d))) /\
                                (Occ(ev, "prod", d) # <<>> => (Left(d) \/ Occ(ev, "recv", d) # <<>>)))
    \cup C("C06.SourceNeedsFullCycle",
           \A s \in Sources : (pre.dev[s].out = 0 /\ post.dev[s].out # 0 /\ Supplied(pre, post, s) = 0)
                                 => post.now = aux.lastLeft[s] + cfg.devs[s].cyc)
    \cup C("C06.SourceNeedsFullCycleSameStep",
           \A s \in Sources : (Supplied(pre, post, s) > 0 /\ post.dev[s].out # 0) => cfg.devs[s].cyc = 0)
    \cup C("C06.SinkSpacing",
           \A d \in Sinks : (Occ(ev, "recv", d) # <<>> /\ aux.lastRecv[d] # None)
                               => post.now >= aux.lastRecv[d] + cfg.devs[d].cyc)

(***************************************************************************)
(* C11  a processor works only while holding exactly its resources         *)
(***************************************************************************)
ReqAmt(d, r) == IF r \in DOMAIN cfg.devs[d].req THEN cfg.devs[d].req[r] ELSE 0
HeldSum(S, r) == LET ds == {d \in ResProcs : S.dev[d].held} IN
                 LET RECURSIVE sm(_) sm(T) == IF T = {} THEN 0 ELSE LET x == CHOOSE y \in T : TRUE IN ReqAmt(x, r) + sm(T \ {x})
                 IN sm(ds)
C11(pre, ev, post, aux) ==
    C("C11.HoldsWhileProcessing", \A d \in ResProcs : post.dev[d].inp # 0 => post.dev[d].held)
    \cup C("C11.UsageIsHolders", \A r \in Resources : post.pool[r].used = HeldSum(post, r))
    \cup C("C11.AcquiredAtomicallyOnAccept",
           \A d \in ResProcs : (Occ(ev, "recv", d) # <<>> /\ ~pre.dev[d].held) => Fits(pre, cfg.devs[d].req))
    \cup C("C11.ReleasedOnFailure", \A d \in ResProcs : IsFailOf(ev, d) => ~post.dev[d].held)
    \cup C("C11.KeptThroughMaintenance",
           \A d \in ResProcs : (ScriptOn(ev, "shutdown", d) /\ pre.dev[d].inp # 0) => post.dev[d].held = pre.dev[d].held)
    \cup C("C11.NothingHeldIntoMaintenanceWithoutAPart",
           \A d \in ResProcs : (IsStep(ev) /\ ~ev.cancelled /\ ev.kind = "mstart" /\ ev.arg \div 10 = d
                                 /\ ~pre.dev[d].down /\ pre.dev[d].inp = 0) => ~post.dev[d].held)
    \cup C("C11.NoIdleHolderWhenTimeAdvances",
           Quiescent(post) => \A d \in ResProcs : (~post.dev[d].down /\ post.dev[d].inp = 0) => ~post.dev[d].held)

(***************************************************************************)
(* C13  shutdown, failure and restore                                      *)
(***************************************************************************)
Untimed(dv) == [dv EXCEPT !.up = 0, !.ut = 0]
SdOf(ev, d) == Sel(ev.sd, LAMBDA x : x[2] = d)
Triple(kind, d, isf, p) == << <<kind, d, 1, isf, p>>, <<kind, d, 2, isf, p>>, <<kind, d, 3, isf, p>> >>
C13d(pre, ev, post, aux) ==
    LET a1 == AuxNext(aux, pre, ev, post) IN
    C("C13.DownAcceptsAndReleasesNothing",
      \A d \in Procs : (pre.dev[d].down /\ post.dev[d].down) =>
           /\ post.dev[d].out = pre.dev[d].out
           /\ Occ(ev, "recv", d) = <<>>
           /\ (post.dev[d].inp = pre.dev[d].inp \/ (IsFailOf(ev, d) /\ post.dev[d].inp = 0)))
    \cup C("C13.FailureDiscardsPartInProcess",
           \A d \in Procs : IsFailOf(ev, d) => post.dev[d].inp = 0 /\ post.dev[d].out = pre.dev[d].out /\ post.dev[d].down)
    \cup C("C13.LostPartReportedOnceToCallbacks",
           \A d \in Procs : (IsFailOf(ev, d) /\ pre.dev[d].inp # 0) => SdOf(ev, d) = Triple("down", d, TRUE, pre.dev[d].inp))
    \cup C("C13.CallbacksOncePerOccurrenceInOrder",
           \A d \in Procs :
              /\ IsFailOf(ev, d) => SdOf(ev, d) = Triple("down", d, TRUE, pre.dev[d].inp)
              /\ (~IsFailOf(ev, d) /\ ~pre.dev[d].down /\ post.dev[d].down) => SdOf(ev, d) = Triple("down", d, FALSE, 0)
              /\ (pre.dev[d].down /\ ~post.dev[d].down) => SdOf(ev, d) = Triple("up", d, FALSE, 0)
              /\ (~IsFailOf(ev, d) /\ pre.dev[d].down = post.dev[d].down) => SdOf(ev, d) = <<>>)
    \cup C("C13.RepeatedCallsAreNoOps",
           \A d \in Procs :
              /\ (ScriptOn(ev, "shutdown", d) /\ pre.dev[d].down) => Untimed(post.dev[d]) = Untimed(pre.dev[d])
              /\ (ScriptOn(ev, "restore", d) /\ ~pre.dev[d].down) => Untimed(post.dev[d]) = Untimed(pre.dev[d]))
    \cup C("C13.RestoreResumesEverythingPaused",     \* cycle timers, pending failures, hand-overs: nothing of an operational machine stays paused
           \A d \in Procs : ~post.dev[d].down => ~\E e \in post.pq : e.asset = d)
    \cup C("C13.WorkOrderKeepsTargetDown", \A d \in Procs : (a1.wo[d] # <<>> /\ ~a1.wo[d][3]) => post.dev[d].down)
    \cup C("C13.WorkOrderLastsExactlyItsDuration",
           \A d \in Procs : (IsStep(ev) /\ ~ev.cancelled /\ ev.kind = "mfinish" /\ ev.arg \div 10 = d) =>
                /\ aux.wo[d] # <<>> /\ post.now = aux.wo[d][1] + aux.wo[d][2]
                /\ ~post.dev[d].down)
    \cup C("C13.FinishedPartLeavesAfterRestoration",
           Quiescent(post) => \A d \in Procs : (a1.everDown[d] /\ ReadyItem(post, d) # 0) =>
                                  \A x \in Range(post.down[d]) : ~WouldTake(post, x, ReadyItem(post, d), 0))
    \cup C("C13.UptimeIsOperationalTime", \A d \in Procs : post.dev[d].up = a1.upAcc[d])
    \cup C("C13.UtilizationIsProcessingTime", \A d \in Procs : post.dev[d].ut = a1.utAcc[d])

C13(pre, ev, post, aux) ==
    C13d(pre, ev, post, aux)
    \cup C("C13.FailureLoggedOnceWithThePart",
           \A d \in Procs : IsFailOf(ev, d) => /\ Len(Recs(ev, "device_failure", d)) = 1
                                                /\ Recs(ev, "device_failure", d)[1][4] = pre.dev[d].inp)

(***************************************************************************)
(* C15  recorded data mirrors what happened                                *)
(***************************************************************************)
C15(pre, ev, post, aux) ==
    C("C15.LastLevelIsLevel", \A b \in Buffers : (IF post.lastlevel[b] = None THEN 0 ELSE post.lastlevel[b]) = post.dev[b].level)
    \cup C("C15.LastResourceRecordIsPool",
           post.inited => \A r \in Resources : (post.pool[r].cap > 0 \/ post.pool[r].used > 0 \/ post.lastres[r] # <<0, 0>>)
                              => post.lastres[r] = <<post.pool[r].used, post.pool[r].cap>>)
    \cup C("C15.OneReceivedRecordPerReceipt",
           \A d \in HoldDevs : Recs(ev, "received_part", d)
                = [i \in DOMAIN Occ(ev, "recv", d) |->
                      LET o == Occ(ev, "recv", d)[i] IN <<"received_part", DevNm(d), post.now, o[3], o[4], o[5]>>])
    \cup C("C15.OneProducedRecordPerFinish",
           \A d \in Procs : Recs(ev, "produced_part", d)
                = [i \in DOMAIN Occ(ev, "prod", d) |->
                      LET o == Occ(ev, "prod", d)[i] IN <<"produced_part", DevNm(d), post.now, o[3], o[4], o[5]>>])
    \cup C("C15.OneSuppliedRecordPerSupply",
           \A s \in Sources : /\ Len(Recs(ev, "supplied_new_part", s)) = Supplied(pre, post, s)
                              /\ \A i \in DOMAIN Recs(ev, "supplied_new_part", s) : Recs(ev, "supplied_new_part", s)[i][3] = post.now
                              /\ (Supplied(pre, post, s) = 1 => Recs(ev, "supplied_new_part", s)[1][4] = pre.dev[s].out))
    \cup C("C15.OneFailureRecordPerFailure",
           \A d \in Procs : Len(Recs(ev, "device_failure", d)) = (IF IsFailOf(ev, d) THEN 1 ELSE 0))
    \cup C("C15.CountersEqualRecords",
           /\ \A s \in Sources : post.dev[s].supplied = post.cnt["supplied_new_part"][s]
           /\ \A d \in Sinks : Len(post.dev[d].collected) = post.cnt["received_part"][d])
    \cup C("C15.OneLevelRecordPerChange",
           \A b \in Buffers : post.dev[b].level # pre.dev[b].level => Len(Recs(ev, "level", b)) >= 1)

(***************************************************************************)
(* C16  value accounting                                                   *)
(***************************************************************************)
VhOf(ev, d) == Sel(ev.vh, LAMBDA x : x[1] = d)
C16(pre, ev, post, aux, jpost) ==
    LET a1 == AuxNext(aux, pre, ev, post) IN
    C("C16.ValueIsStartPlusHistory",
      \A d \in Devs : LET h == VhOf(ev, d) IN
          /\ post.dev[d].value = pre.dev[d].value + SeqSum([i \in DOMAIN h |-> h[i][3]])
          /\ post.dev[d].nvh = pre.dev[d].nvh + Len(h)
          /\ \A i \in DOMAIN h : /\ h[i][2] = post.now /\ h[i][3] # 0
                                 /\ h[i][4] = pre.dev[d].value + SeqSum([k \in 1..i |-> h[k][3]]))
    \cup C("C16.SourceValueIsMinusSupplied",
           \A s \in Sources : post.dev[s].cost = a1.cost[s] /\ post.dev[s].value = -a1.cost[s])
    \cup C("C16.SinkValueIsReceived", \A d \in Sinks : post.dev[d].revenue = a1.rev[d] /\ post.dev[d].value = a1.rev[d])
    \cup C("C16.MaintainerChargedOncePerStartedOrder",
           IF IsStep(ev) /\ ~ev.cancelled /\ ev.kind = "mstart"
           THEN LET c == cfg.devs[ev.arg \div 10].wocost IN
                post.mt.value = pre.mt.value - c /\ post.mt.nvh = pre.mt.nvh + (IF c = 0 THEN 0 ELSE 1)
           ELSE post.mt.value = pre.mt.value /\ post.mt.nvh = pre.mt.nvh)
    \cup C("C16.BatchIsSumOfParts", \A p \in DOMAIN post.part : post.part[p].batch => post.part[p].value = SumValue(post, post.part[p].leaves, 1))
    \cup C("C16.NetValueIsSumOfAssets", jpost.net = SeqSum([d \in Devs |-> post.dev[d].value]) + jpost.mtvalue)

(***************************************************************************)
(* C08  routing fidelity                                                   *)
(***************************************************************************)
IsSuffix(a, b) == Len(a) <= Len(b) /\ SubSeq(b, Len(b) - Len(a) + 1, Len(b)) = a
IsPrefixOf(a, b) == Len(a) <= Len(b) /\ SubSeq(b, 1, Len(a)) = a
Connected(a, b) == \/ a \in Range(cfg.devs[b].ups)        \* from the configuration, not from the objects
                   \/ \E i \in DOMAIN cfg.script : cfg.script[i].call = "rewire" /\ cfg.script[i].dev = b
                                                     /\ a \in Range(cfg.script[i].ups)
InputsOf(P) == {x \in Devs : GInput(P) \in Range(cfg.devs[x].ups)}
OutputsOf(P) == Range(cfg.devs[GOutput(P)].ups)
(* walk the history with a stack of entered group paths: plain connection, entering a group through *)
(* a path (push), or leaving through the path on top of the stack (pop - innermost first)           *)
(* leaving nested groups: from device cur with the given stack, can the part reach b, and with which stack *)
RECURSIVE Exit(_, _, _)
Exit(cur, stack, b) ==
    IF Connected(cur, b) THEN [ok |-> TRUE, stack |-> stack]
    ELSE IF stack # <<>> /\ cur \in OutputsOf(stack[Len(stack)])
         THEN Exit(stack[Len(stack)], SubSeq(stack, 1, Len(stack) - 1), b)      \* innermost first
    ELSE [ok |-> FALSE, stack |-> stack]
RECURSIVE Walk(_, _, _)
Walk(h, i, stack) ==
    IF i >= Len(h) THEN [ok |-> TRUE, stack |-> stack]
    ELSE LET a == h[i] b == h[i + 1] IN
         IF Kind(a) = "gpath"
         THEN (IF b \in InputsOf(a) THEN Walk(h, i + 1, Append(stack, a)) ELSE [ok |-> FALSE, stack |-> stack])
         ELSE LET x == Exit(a, stack, b) IN
              IF x.ok THEN Walk(h, i + 1, x.stack) ELSE [ok |-> FALSE, stack |-> stack]
Routable(h) == Walk(h, 1, <<>>).ok
HolderOf(S, p) == {d \in Devs : p \in Range(ItemsOf(S, d)) \/ (Kind(d) = "sink" /\ p \in Range(S.dev[d].collected))}
SingleSlotKind(d) == Kind(d) \in {"handler", "processor", "sink"}
C08(pre, ev, post, aux) ==
    C("C08.HistoryFollowsConnections",
      \A p \in DOMAIN post.part : (~post.part[p].batch \/ IsPrefixOf(<<1>>, <<1>>)) =>
            (IF post.part[p].batch /\ post.part[p].hist # <<>> /\ Kind(post.part[p].hist[1]) # "source"
             THEN Routable(post.part[p].hist)        \* a batch made by a batcher starts its history there
             ELSE Routable(post.part[p].hist) /\ (post.part[p].hist # <<>> => Kind(post.part[p].hist[1]) = "source")))
    \cup C("C08.HistoryEndsAtHolder",
           \A p \in DOMAIN post.part : \A d \in HolderOf(post, p) :
                \/ (post.part[p].batch /\ post.part[p].hist = <<>> /\ Kind(d) = "batcher")    \* a batch just made there
                \/ (post.part[p].hist # <<>> /\ post.part[p].hist[Len(post.part[p].hist)] = d))
    \cup C("C08.LeavesShareTheBatchHistory",
           \A b \in DOMAIN post.part : post.part[b].batch =>
                \A i \in DOMAIN post.part[b].leaves : IsSuffix(post.part[b].hist, post.part[post.part[b].leaves[i]].hist))
    \cup C("C08.LeavesThroughThePathItEntered",
           \* the stack of entered group paths the part carries is the one its history implies
           \A p \in DOMAIN post.part : (HolderOf(post, p) # {} /\ ~post.part[p].batch /\ Routable(post.part[p].hist)
                                          /\ \A b \in DOMAIN post.part : ~(post.part[b].batch /\ p \in Range(post.part[b].leaves)))
                  => post.part[p].gst = Walk(post.part[p].hist, 1, <<>>).stack)
    \cup C("C08.HistoryOnlyGrows",
           \A p \in DOMAIN pre.part : IsPrefixOf(pre.part[p].hist, post.part[p].hist))
    \cup C("C08.GatesRespected",
           \A p \in DOMAIN post.part : ~post.part[p].batch =>
                LET h0 == IF p \in DOMAIN pre.part THEN pre.part[p].hist ELSE <<>>
                    h1 == post.part[p].hist IN
                \A i \in (Len(h0) + 1)..Len(h1) : Kind(h1[i]) = "gate" => Pred(pre, h1[i], p))
    \cup C("C08.BlockedInputRefuses",
           \A d \in Devs : (pre.dev[d].blocked /\ post.dev[d].blocked) =>
                /\ Occ(ev, "recv", d) = <<>>
                /\ \A p \in DOMAIN post.part :
                      LET h0 == IF p \in DOMAIN pre.part THEN pre.part[p].hist ELSE <<>> IN
                      \A i \in (Len(h0) + 1)..Len(post.part[p].hist) : post.part[p].hist[i] # d)
    \cup C("C08.CollectedInArrivalOrder",
           \A d \in Sinks : /\ IsPrefixOf(pre.dev[d].collected, post.dev[d].collected)
                            /\ SubSeq(post.dev[d].collected, Len(pre.dev[d].collected) + 1, Len(post.dev[d].collected))
                                  = [i \in DOMAIN Occ(ev, "recv", d) |-> Occ(ev, "recv", d)[i][3]])
    \cup C("C08.IdleLongestReceives",
           \* every hand-over of this step from the dispatching device u to a single-slot device x, directly or through
           \* one open gate / junction (a buffer may hand over several items in one step): no other single-slot device
           \* reachable the same way, still free in this step, that would have taken the part had been idle longer
           \* (directly connected devices that have been idle equally long are served in list order)
           (IsStep(ev) /\ ev.kind = "pass" /\ ~ev.cancelled /\ ev.asset \in Devs) =>
              LET u == ev.asset
                  ds == pre.down[u]
                  Pos(y) == CHOOSE i \in DOMAIN ds : ds[i] = y
                  Open(g, p) == Kind(g) \in {"gate", "junction"} /\ ~pre.dev[g].blocked /\ Pred(pre, g, p)
                  direct == {y \in Range(ds) : SingleSlotKind(y)}
                  Behind(p) == UNION {{y \in Range(pre.down[g]) : SingleSlotKind(y)} : g \in {h \in Range(ds) : Open(h, p)}}
                  Earlier(i) == {ev.occ[j][2] : j \in 1..(i - 1)}
              IN
              \A i \in DOMAIN ev.occ :
                 LET x == ev.occ[i][2]
                     p == ev.occ[i][3] IN
                 (ev.occ[i][1] = "recv" /\ p \in DOMAIN pre.part /\ x \in direct \cup Behind(p) /\ x \notin Earlier(i)
                  /\ (Kind(u) = "buffer" \/ i = 1)) =>
                    \A y \in (direct \cup Behind(p)) \ ({x} \cup Earlier(i)) :
                       WouldTake(pre, y, p, 0) =>
                           IF aux.idleLo[x] # aux.idle[x] \/ aux.idleLo[y] # aux.idle[y]
                           THEN aux.idleLo[x] <= aux.idle[y]        \* some reading under which x has been idle at least as long
                           ELSE (aux.idle[x] < aux.idle[y]
                                 \/ (aux.idle[x] = aux.idle[y] /\ (x \in direct /\ y \in direct => Pos(x) < Pos(y)))))

(***************************************************************************)
(* C17  batching keeps order and exact batch sizes                         *)
(***************************************************************************)
Batchers == {d \in Devs : Kind(d) = "batcher"}
C17(pre, ev, post, aux) ==
    LET a1 == AuxNext(aux, pre, ev, post) IN
    C("C17.SequenceIsKept",
      \A b \in Batchers : a1.inSeq[b] = a1.outSeq[b] \o LeavesOf(post, post.dev[b].out) \o post.dev[b].inprog
                                         \o LeavesOf(post, post.dev[b].inp))
    \cup C("C17.ExactBatchSize",
           \A b \in Batchers : (post.dev[b].out # 0 /\ post.dev[b].out # pre.dev[b].out) =>
                IF cfg.devs[b].bsize > 0
                THEN post.part[post.dev[b].out].batch /\ Len(post.part[post.dev[b].out].leaves) = cfg.devs[b].bsize
                ELSE ~post.part[post.dev[b].out].batch)
    \cup C("C17.BatchHistoryAppliedToAllParts",
           \* every part of a batch has the history it had when it joined, followed by the batch's history since
           \A b \in DOMAIN post.part : post.part[b].batch =>
                \A i \in DOMAIN post.part[b].leaves :
                    LET x == post.part[b].leaves[i] IN post.part[x].hist = a1.join[x] \o post.part[b].hist)
    \cup C("C17.UnpackedPartsCarryTheBatcher",
           \* a batch's history update reaches every part it contained, also those the batcher unpacks at once: every part
           \* collected or waiting to leave at batcher b has b as the last device of its own history (followed only by the
           \* history of the output batch it is in)
           \A b \in Batchers :
               LET o  == post.dev[b].out
                   ob == o # 0 /\ post.part[o].batch /\ cfg.devs[b].bsize > 0
                   xs == Range(post.dev[b].inprog) \cup (IF o = 0 THEN {} ELSE IF ob THEN Range(post.part[o].leaves) ELSE {o}) IN
               \A x \in xs : LET h  == post.part[x].hist
                                 bh == IF ob /\ x \in Range(post.part[o].leaves) THEN post.part[o].hist ELSE <<>> IN
                             Len(h) > Len(bh) /\ h[Len(h) - Len(bh)] = b)
    \cup C("C17.InProgressBelowSize", \A b \in Batchers : cfg.devs[b].bsize > 0 => Len(post.dev[b].inprog) < cfg.devs[b].bsize)
    \cup C("C17.AcceptsOnlyWhenEmpty",
           \A b \in Batchers : Occ(ev, "recv", b) # <<>> => (pre.dev[b].inp = 0 /\ pre.dev[b].out = 0))
    \cup C("C17.BuffersAndSinksCountEveryPart",
           /\ \A d \in Sinks : LET rc == Occ(ev, "recv", d) IN
                   post.dev[d].count - pre.dev[d].count = SeqSum([i \in DOMAIN rc |-> NLeaves(pre, rc[i][3])])
           /\ \A d \in Buffers : post.dev[d].level = BufLeaves(post, d))

(***************************************************************************)
(* C01 on every model assembled from the devices: dispatch order and clock *)
(***************************************************************************)
C01(pre, ev, post, aux) ==
    C("C01.FloorStepMin", (IsStep(ev) /\ ~ev.direct) =>
            /\ ev.minhead
            /\ \E e \in MinEvents(pre.q) : e.time = ev.time /\ e.prio = ev.prio /\ e.asset = ev.asset /\ e.kind = ev.kind)
    \cup C("C01.FloorStepClock", (IsStep(ev) /\ ~ev.direct) => post.now = ev.time)
    \cup C("C01.FloorClockMonotone", post.now >= pre.now)
    \cup C("C01.FloorRunNotBeyond", (IsStep(ev) /\ aux.runEnd # None) => post.now <= aux.runEnd)
    \cup C("C01.FloorRunComplete",
           ev.op = "run_end" => /\ post.now = ev.t0 + ev.d
                                /\ \A e \in post.q : e.time > post.now \/ (e.time = post.now /\ e.prio <= 10))

(* the exported event trace lists exactly the dispatched events in dispatch order *)
C15t(pre, ev, post, aux) ==
    C("C15.TraceFileListsDispatchedEvents",
      (ev.op = "run_end" /\ cfg.trace) => [i \in DOMAIN ev.trace |-> <<ev.trace[i][1], ev.trace[i][2], ev.trace[i][3], ev.trace[i][4]>>] = aux.disp)

(***************************************************************************)
(* C19 on the floor: sensors attached to processors in lines with failures, *)
(* blocked inputs and work orders (which the monitoring system requests)    *)
(***************************************************************************)
OutSensed == {d \in Procs : cfg.devs[d].sint >= 0}
PerSensed == {d \in Procs : cfg.devs[d].pint > 0}
SenseOcc(ev, kind, d, which) == Sel(ev.occ, LAMBDA o : o[1] = kind /\ o[2] = d /\ o[4] = which)
IsPSenseOf(ev, d) == IsStep(ev) /\ ~ev.direct /\ ev.kind = "psense" /\ ~ev.cancelled /\ ev.arg = d
CapOf(d) == IF cfg.devs[d].scap = None THEN 1000000 ELSE cfg.devs[d].scap
C19(pre, ev, post, aux) ==
    C("C19.FloorOutputSensorCadence",       \* the first finished part and then every (n+1)-th, the part's value at that moment
      \A d \in OutSensed :
         LET prods == Occ(ev, "prod", d)
             ss == SenseOcc(ev, "sense", d, 0)
             n0 == pre.cnt["produced_part"][d] IN
         /\ (prods = <<>> => ss = <<>>)
         /\ (Len(prods) = 1 => /\ Len(ss) = (IF n0 % (cfg.devs[d].sint + 1) = 0 THEN 1 ELSE 0)
                                /\ \A i \in DOMAIN ss : ss[i][3] = 1 /\ ss[i][5] = prods[1][4] /\ ss[i][6] = post.now))
    \cup C("C19.FloorPeriodicSensorExact",  \* the k-th measurement exactly k intervals after the start, a copy of the value then
           \A d \in PerSensed :
              LET ss == SenseOcc(ev, "sense", d, 1) IN
              IF IsPSenseOf(ev, d)
              THEN /\ post.now % cfg.devs[d].pint = 0 /\ post.dev[d].pn = post.now \div cfg.devs[d].pint
                   /\ Len(ss) = 1 /\ ss[1][3] = 1 /\ ss[1][5] = pre.dev[d].damage /\ ss[1][6] = post.now
              ELSE ss = <<>> /\ post.dev[d].pn = pre.dev[d].pn)
    \cup C("C19.FloorPeriodicSensorNeverLate",
           \A d \in PerSensed : post.inited =>
              LET due == post.now \div cfg.devs[d].pint IN
              IF post.now % cfg.devs[d].pint = 0 /\ ~Quiescent(post) THEN post.dev[d].pn \in {due - 1, due}
              ELSE post.dev[d].pn = due)
    \cup C("C19.FloorSeriesBoundedAndAligned",
           \A d \in Procs :
              /\ Len(post.dev[d].sdata) = Min(post.dev[d].sn, CapOf(d))
              /\ Len(post.dev[d].pdata) = Min(post.dev[d].pn, CapOf(d))
              /\ Len(post.dev[d].ptime) = Len(post.dev[d].pdata)
              /\ \A i \in DOMAIN post.dev[d].ptime :
                    post.dev[d].ptime[i] = (post.dev[d].pn - Len(post.dev[d].ptime) + i) * cfg.devs[d].pint)
    \cup C("C19.FloorSeriesKeepsMostRecent",
           \A d \in Procs :
              LET so == SenseOcc(ev, "sense", d, 0)
                  sp == SenseOcc(ev, "sense", d, 1) IN
              /\ (Len(so) <= 1 => post.dev[d].sdata = KeepLast(pre.dev[d].sdata \o [i \in DOMAIN so |-> so[i][5]], CapOf(d)))
              /\ (Len(sp) <= 1 => post.dev[d].pdata = KeepLast(pre.dev[d].pdata \o [i \in DOMAIN sp |-> sp[i][5]], CapOf(d)))
              /\ post.dev[d].sn = pre.dev[d].sn + Len(so))
    \cup C("C19.FloorMonitorReceivesEachOnceInOrder",   \* callbacks in registration order: the observer's, then the monitoring system's
           \A i \in DOMAIN ev.occ :
              /\ (ev.occ[i][1] = "sense" => i < Len(ev.occ) /\ ev.occ[i + 1] = [ev.occ[i] EXCEPT ![1] = "cms"])
              /\ (ev.occ[i][1] = "cms" => i > 1 /\ ev.occ[i - 1] = [ev.occ[i] EXCEPT ![1] = "sense"]))

(***************************************************************************)
(* C12 on the floor: the maintainer serving processors of real lines       *)
(* (orders from scripts and from the monitoring system)                    *)
(***************************************************************************)
OpenOrders(S) == S.mt.queue \o S.mt.active
ActiveOn(S, d) == \E a \in Range(S.mt.active) : a[1] = d
C12(pre, ev, post, aux) ==
    C("C12.FloorCapacityNeverExceeded",
      /\ post.mt.util <= MtCap
      /\ post.mt.util = SeqSum([i \in DOMAIN post.mt.active |-> WoCap(post.mt.active[i][1])]))
    \cup C("C12.FloorOneOrderPerTarget",
           \A i, j \in DOMAIN post.mt.active : i # j => post.mt.active[i][1] # post.mt.active[j][1])
    \cup C("C12.FloorNoIdenticalOrderTwice",
           \A i, j \in DOMAIN OpenOrders(post) : i # j => OpenOrders(post)[i] # OpenOrders(post)[j])
    \cup C("C12.FloorAcceptedUnlessIdenticalPending",
           \A d \in Procs : IsScript(ev, "workorder") /\ cfg.script[ev.arg].dev = d =>
              LET o == <<d, cfg.script[ev.arg].res>> IN
              post.mt.enter = pre.mt.enter + (IF o \in Range(OpenOrders(pre)) THEN 0 ELSE 1))
    \cup C("C12.FloorNoStartableLeftWhenTimeAdvances",
           Quiescent(post) => \A i \in DOMAIN post.mt.queue :
              LET o == post.mt.queue[i] IN ~(post.mt.util + WoCap(o[1]) <= MtCap /\ ~ActiveOn(post, o[1])))
    \cup C("C12.FloorHooksOncePerOrder",          \* start = shutdown, end = restore of the target, once each
           /\ post.mt.start - post.mt.finish + Cardinality({e \in post.q : e.kind = "mstart"}) = Len(post.mt.active)
           /\ post.mt.enter = post.mt.finish + Len(post.mt.active) + Len(post.mt.queue))

(***************************************************************************)
(* C18 on the floor: operating schedules that block and unblock devices    *)
(***************************************************************************)
RECURSIVE TtBegin(_, _)
TtBegin(tt, k) == IF k <= 1 THEN 0 ELSE TtBegin(tt, k - 1) + tt[k - 1][1]
TtTotal(tt) == TtBegin(tt, Len(tt) + 1)
TtStateAt(sc, t) ==
    LET tt == sc.tt
        tp == IF sc.cyc /\ TtTotal(tt) > 0 THEN t % TtTotal(tt) ELSE t
        ks == {k \in DOMAIN tt : TtBegin(tt, k) <= tp}
        k == CHOOSE x \in ks : \A y \in ks : y <= x IN
    tt[k][2]
ScriptedBlock(d) == \E i \in DOMAIN cfg.script : cfg.script[i].dev = d /\ cfg.script[i].call \in {"block", "unblock"}
OnlySched(d, i) == /\ d \in Range(cfg.scheds[i].targets) /\ ~ScriptedBlock(d)
                   /\ \A j \in DOMAIN cfg.scheds : j # i => d \notin Range(cfg.scheds[j].targets)
C18(pre, ev, post, aux) ==
    C("C18.FloorStateIsTimetableWhenTimeAdvances",
      (post.inited /\ Quiescent(post)) => \A i \in DOMAIN cfg.scheds : post.sch[i].state = TtStateAt(cfg.scheds[i], post.now))
    \cup C("C18.FloorTargetsFollowTheState",
           (post.inited /\ Quiescent(post)) =>
              \A i \in DOMAIN cfg.scheds : \A d \in Devs :
                 OnlySched(d, i) => post.dev[d].blocked = (post.sch[i].state = "off"))

(* the clauses that do not need the recorded datapoints (ev.recs, ev.vh): checked on the closed      *)
(* specification as well as on recorded runs                                                        *)
DesignClauses(pre, ev, post, aux) ==
    C02(pre, ev, post, aux) \cup C03(pre, ev, post, aux) \cup C04(pre, ev, post, aux) \cup C05(pre, ev, post, aux)
    \cup C06(pre, ev, post, aux) \cup C08(pre, ev, post, aux) \cup C11(pre, ev, post, aux) \cup C13d(pre, ev, post, aux)
    \cup C17(pre, ev, post, aux) \cup C19(pre, ev, post, aux) \cup C12(pre, ev, post, aux) \cup C18(pre, ev, post, aux)

ObsClauses(pre, ev, post, aux, jpost, jpre) ==
    C01(pre, ev, post, aux) \cup C15t(pre, ev, post, aux) \cup C08(pre, ev, post, aux) \cup C17(pre, ev, post, aux) \cup
    C02(pre, ev, post, aux) \cup C03(pre, ev, post, aux) \cup C04(pre, ev, post, aux) \cup C05(pre, ev, post, aux)
    \cup C06(pre, ev, post, aux) \cup C11(pre, ev, post, aux) \cup C13(pre, ev, post, aux) \cup C15(pre, ev, post, aux)
    \cup C16(pre, ev, post, aux, jpost) \cup C19(pre, ev, post, aux) \cup C12(pre, ev, post, aux) \cup C18(pre, ev, post, aux)
=============================================================================
