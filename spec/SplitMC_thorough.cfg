SPECIFICATION Spec
CONSTANTS
  Prios = {50, 70}
  Deltas = {0, 1, 2}
  BodyChoices = {0, 1, 3, 4, 6, 8}
  As = {0, 1, 2}
  Bs = {0, 1, 2}
  MaxInit = 3
CHECK_DEADLOCK FALSE
INVARIANT SplitEqualsWhole
