SPECIFICATION Spec
CONSTANTS
  Level = 1
  RunDurs = {0, 1, 4}
  MaxOps = 3
  MaxNow = 9
  EmitHist = FALSE
VIEW view
CONSTRAINT Bound
CHECK_DEADLOCK FALSE
INVARIANT NonCyclicalStaysLast
PROPERTY StateIsTimetable
PROPERTY RecordsAreTimetable
PROPERTY ActionsAtChanges
