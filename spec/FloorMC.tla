------------------------------ MODULE FloorMC ------------------------------
(***************************************************************************)
(* Closed specification of the factory floor: a configuration is chosen    *)
(* from the generated family Cfgs (module FloorCfgs, rendered from the     *)
(* same JSON the Python builder uses), the simulation is initialised and   *)
(* events are dispatched until the horizon.  Step picks ANY minimal        *)
(* pending event, so TLC explores every tie-break order; the scripted      *)
(* calls of the configuration (failures, shutdowns, restores, blocking,    *)
(* capacity and budget changes) fire from the queue like any other event.  *)
(* The property observers of FloorObs are evaluated on every step.         *)
(***************************************************************************)
EXTENDS FloorObs, FloorCfgs, Json

CONSTANT SampleEvery   \* one of so many completed behaviours is printed for replay on the real package

VARIABLES S, aux, mode, ev, hist
vars == <<cfg, S, aux, mode, ev, hist>>
view == <<cfg, S, aux, mode, ev>>

EvOf(e, post) == [op |-> "step", direct |-> FALSE, time |-> e.time, prio |-> e.prio, asset |-> e.asset, kind |-> e.kind,
                  cancelled |-> e.cancelled, arg |-> e.arg, occ |-> post.occ, sd |-> post.sd, recs |-> <<>>, vh |-> <<>>]
InitEv(post) == [op |-> "init", direct |-> FALSE, d |-> cfg.horizon, occ |-> post.occ, sd |-> post.sd, recs |-> <<>>, vh |-> <<>>]
EndEv(post) == [op |-> "run_end", direct |-> FALSE, t0 |-> 0, d |-> cfg.horizon, occ |-> <<>>, sd |-> <<>>, recs |-> <<>>, vh |-> <<>>]

Init == /\ cfg \in Cfgs
        /\ S = S0
        /\ aux = AuxInit
        /\ mode = "new"
        /\ ev = [op |-> "cfg"]
        /\ hist = <<>>

Start == /\ mode = "new"
         /\ S' = SchedArg(Initialise(S), cfg.horizon, -1, "term", 10, 0)
         /\ ev' = InitEv(S')
         /\ aux' = AuxNext(aux, S, ev', S')
         /\ mode' = "run"
         /\ UNCHANGED <<cfg, hist>>

Step == /\ mode = "run"
        /\ \E e \in MinEvents(S.q) :
             IF e.kind = "term"
             THEN /\ S' = [Tick(S, e.time) EXCEPT !.q = @ \ {e}, !.occ = <<>>, !.sd = <<>>]
                  /\ ev' = EvOf(e, S')
                  /\ aux' = AuxNext(aux, S, ev', S')
                  /\ mode' = "end"
                  /\ hist' = hist
             ELSE /\ S' = Dispatch(S, e)
                  /\ ev' = EvOf(e, S')
                  /\ aux' = AuxNext(aux, S, ev', S')
                  /\ mode' = mode
                  /\ hist' = Append(hist, <<e.asset, e.kind, e.arg>>)
        /\ UNCHANGED cfg

Finish == /\ mode = "end"
          /\ mode' = "done"
          /\ ev' = EndEv(S)
          /\ aux' = AuxNext(aux, S, ev', S)
          /\ UNCHANGED <<cfg, S, hist>>

Next == Start \/ Step \/ Finish
Spec == Init /\ [][Next]_vars

(* the observers hold on every step of every behaviour *)
ObserversHold == [][DesignClauses(S, ev', S', aux) = {}]_vars
(* which clauses fail, for diagnosis *)
Diagnose == [][LET bad == DesignClauses(S, ev', S', aux) IN
               bad = {} \/ PrintT(<<"DESIGN-FAIL", cfg.cid, S'.now, ev', bad>>)]_vars
(* Why no wake-up is lost (the retry protocol of the design): a device holding a finished item either *)
(* has a hand-over attempt pending, or has been refused and waits for a notification, or cannot hand   *)
(* over at all (shut down; a source without budget); a non-empty buffer likewise                        *)
RetryProtocol ==
    mode = "run" =>
    \A d \in HoldDevs \ Sinks :
        LET pending == \E e \in S.q : e.asset = d /\ e.kind = "pass" /\ ~e.cancelled IN
        /\ (Kind(d) # "buffer" /\ S.dev[d].out # 0 /\ Operational(S, d) /\ (Kind(d) = "source" => Remaining(S, d) >= 1))
              => (pending \/ S.dev[d].wds)
        /\ (Kind(d) = "buffer" /\ S.dev[d].buf # <<>>) => (pending \/ S.dev[d].wds)

(* behaviours for replay: the dispatch order of a sample of the completed runs *)
SampleHist == (mode = "done" /\ RandomElement(1..SampleEvery) = 1) => PrintT(<<"HIST", cfg.cid, ToJson(hist)>>)
(* every run reaches its horizon: within one instant only boundedly many events are dispatched *)
BoundedInstant == aux.steps[2] <= InstantBound
=============================================================================
