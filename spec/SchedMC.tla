------------------------------ MODULE SchedMC ------------------------------
(***************************************************************************)
(* Closed specification of the action scheduler: every timetable of a      *)
(* bounded family (repeated states, zero and "fractional" durations in     *)
(* quarter ticks), cyclical or not or unspecified, with register and       *)
(* unregister calls issued before the run, between runs and from other     *)
(* events during the run (at higher and lower priority than the            *)
(* scheduler's own event).                                                 *)
(***************************************************************************)
EXTENDS Sched, TLC, Json

CONSTANTS Level, RunDurs, MaxOps, MaxNow, EmitHist

VARIABLES S, mode, runEnd, nops, hist
vars == <<S, mode, runEnd, nops, hist>>
view == <<S, mode, runEnd, nops>>

Durs == IF Level = 1 THEN {0, 1, 3} ELSE {0, 1, 2, 3, 6}
States == {"a", "b"}
Entry == {<<d, s>> : d \in Durs, s \in States}
TT1 == {<<e>> : e \in Entry}
TT2 == {<<e, f>> : e \in Entry, f \in IF Level = 1 THEN {<<0, "a">>, <<1, "b">>, <<3, "a">>} ELSE Entry}
TT3 == {<<e, f, g>> : e \in Entry, f \in Entry, g \in {<<2, "c">>, <<0, "a">>}}
TTs == IF Level = 1 THEN TT1 \cup TT2 ELSE TT1 \cup TT2 \cup TT3
ObjSet == IF Level = 1 THEN {"O1", "O2"} ELSE {"O1", "O2", "O3"}
CycKinds == {"yes", "no", "default"}
WellPosed(tt, ck) == ck = "no" \/ Period(tt) > 0

Init == /\ \E tt \in TTs, ck \in CycKinds :
              /\ WellPosed(tt, ck)
              /\ S = InitS(tt, ck # "no")
              /\ hist = <<[op |-> "cfg", tt |-> tt, cyc |-> ck]>>
        /\ mode = "idle" /\ runEnd = 0 /\ nops = 0

Rec(h) == /\ hist' = Append(hist, h) /\ nops' = nops + 1
Idle == mode = "idle" /\ nops < MaxOps

OpRegister == /\ Idle
              /\ \E o \in ObjSet, ov \in {0, 1} :
                   LET x == Register(S, o, ov) IN
                   /\ S' = [x.S EXCEPT !.calls = <<>>]
                   /\ Rec([op |-> "register", obj |-> o, ov |-> ov, ret |-> x.ret])
              /\ UNCHANGED <<mode, runEnd>>
OpUnregister == /\ Idle
                /\ \E o \in ObjSet :
                     LET x == Unregister(S, o) IN
                     /\ S' = [x.S EXCEPT !.calls = <<>>]
                     /\ Rec([op |-> "unregister", obj |-> o, ret |-> x.ret])
                /\ UNCHANGED <<mode, runEnd>>
OpSched == /\ Idle /\ Cardinality(S.evq) < 4
           /\ \E dt \in (IF Level = 1 THEN {0, 1} ELSE {0, 1, 3}), p \in {50, 115}, act \in {"reg", "unreg"}, o \in ObjSet :
                /\ S' = SchedUser([S EXCEPT !.calls = <<>>], dt, p, act, o, 1)
                /\ Rec([op |-> "sched", dt |-> dt, prio |-> p, act |-> act, obj |-> o, ov |-> 1])
           /\ UNCHANGED <<mode, runEnd>>
OpRun == /\ Idle
         /\ \E d \in RunDurs :
              /\ runEnd' = S.now + d
              /\ Rec([op |-> "run", d |-> d])
         /\ mode' = IF S.started THEN "running" ELSE "starting"
         /\ UNCHANGED S
RunStart == /\ mode = "starting"
            /\ S' = Start(S)
            /\ mode' = "running"
            /\ UNCHANGED <<runEnd, nops, hist>>
Due == {e \in S.evq : e.time <= runEnd}
RunStep == /\ mode = "running" /\ Due # {}
           /\ \E e \in MinEvents(S.evq) : S' = Dispatch(S, e)
           /\ UNCHANGED <<mode, runEnd, nops, hist>>
RunEnd == /\ mode = "running" /\ Due = {}
          /\ S' = [S EXCEPT !.now = runEnd, !.calls = <<>>]
          /\ mode' = "idle"
          /\ UNCHANGED <<runEnd, nops, hist>>

Next == OpRegister \/ OpUnregister \/ OpSched \/ OpRun \/ RunStart \/ RunStep \/ RunEnd
Spec == Init /\ [][Next]_vars
Bound == S.now <= MaxNow

----------------------------------------------------------------------------
(* whenever the clock advances, the state is the one the timetable prescribes *)
StateIsTimetable == [][(S'.now > S.now /\ S.started) => S.state = StateAt(S.tt, S.cyc, S.now)]_vars
(* the k-th record is written at the k-th prefix-sum time with the k-th state *)
RecordsAreTimetable ==
    [][S'.nrec > S.nrec => /\ S'.nrec = S.nrec + 1
                           /\ S'.lastrec = <<BeginK(S.tt, S.cyc, S'.nrec), S.tt[EntryK(S.tt, S.cyc, S'.nrec)][2]>>
                           /\ S'.now = S'.lastrec[1]]_vars
(* actions run only together with a record, once per object registered before the step, in order *)
ActionsAtChanges == [][S'.calls # <<>> => (S'.nrec = S.nrec + 1 /\ S'.calls = S.reg)]_vars
NonCyclicalStaysLast == (~S.cyc /\ S.nrec = Len(S.tt)) => S.state = S.tt[Len(S.tt)][2]

HistOut == (EmitHist /\ mode = "idle" /\ nops >= MaxOps) => PrintT(<<"HIST", ToJson(hist)>>)
=============================================================================
