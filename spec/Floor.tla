------------------------------- MODULE Floor -------------------------------
(***************************************************************************)
(* The device network of simprocesd on top of the event queue:             *)
(* Source, PartHandler, PartProcessor (shutdown / failure / restore,       *)
(* resources, work orders), Buffer, Sink, DecisionGate, plain              *)
(* PartFlowController ("junction"), PartBatcher, shared-machine groups     *)
(* (GroupPath / GroupInput / GroupOutput, nested and re-entrant), the      *)
(* resource manager's waiting list, the Maintainer, ActionSchedulers that  *)
(* block device inputs, and scripted calls issued from events, including   *)
(* set_upstream during a run                                               *)
(* (model/factory_floor/*.py, model/resource_manager.py).                  *)
(*                                                                         *)
(* Written to be bound: one operator per event kind the code schedules     *)
(* (FinishCycle, PassPart, ReleaseIfIdle, Fail, CheckPending, StartOrder,  *)
(* FinishOrder, SchedTransition, Script) and                               *)
(* helper operators that mirror the code's synchronous call structure      *)
(* (Give, Accept, NotifyUp, SpaceAvail, SchedulePass, ScheduleFinish,      *)
(* SortedDown).  Every operator maps a state record S to a state record;   *)
(* S has the shape the tracer logs after every event of the real package:  *)
(*                                                                         *)
(*  S.now                                                                  *)
(*  S.dev[d]  = [inp, out, wds, wsince, off, blocked,      every device    *)
(*               down, held, wres, up, ut,                 processor       *)
(*               buf, level,                               buffer          *)
(*               inprog, ipb,                              batcher         *)
(*               supplied, budget, cost,                   source          *)
(*               count, collected, revenue,                sink            *)
(*               value, nvh]                               asset value     *)
(*  S.down[d] = downstream devices of d in connection order                *)
(*  S.part[p] = [hist, gst, value, quality, batch, leaves, seq]            *)
(*  S.q, S.pq = scheduled / paused events                                  *)
(*              [eid, time, prio, asset, kind, cancelled, pausedAt]        *)
(*  S.pool[r] = [used, cap]    S.waitq = devices waiting for resources     *)
(*  S.lost    = <<dev, part>> pairs reported lost by failures              *)
(*  S.cnt[label][d], S.lastlevel[d], S.lastres[r]: recorded datapoints     *)
(*  S.sch[i]  = action scheduler i: [idx, state, nrec]; its action blocks *)
(*              the input of its targets in state "off", unblocks otherwise *)
(*  S.mt      = the maintainer: [queue, active, util, value, nvh, enter,   *)
(*              start, finish]; an order is <<target device, tag>>         *)
(*  S.nleaf   = number of leaf parts generated so far                      *)
(*  S.occ, S.sd = what the callbacks registered on the devices saw during  *)
(*              the last step (receipts, finished parts; shutdown and      *)
(*              restored callbacks), in order - reset at every step        *)
(*                                                                         *)
(* Times are ticks (1/4 time unit); 0 is "no part", -1 is "none/infinite". *)
(* The configuration is the variable cfg (chosen once, never changed), the *)
(* same record the Python builder instantiates the real classes from.      *)
(***************************************************************************)
EXTENDS Integers, Sequences, FiniteSets, TLC

VARIABLE cfg

None == -1
Range(s) == {s[i] : i \in DOMAIN s}
Max(a, b) == IF a > b THEN a ELSE b
RemoveAt(s, i) == SubSeq(s, 1, i - 1) \o SubSeq(s, i + 1, Len(s))
N == Len(cfg.devs)
Devs == 1..N
Kind(d) == cfg.devs[d].kind
Holding == {"source", "handler", "processor", "buffer", "sink", "batcher"}
Labels == {"received_part", "produced_part", "supplied_new_part", "device_failure", "level"}
Resources == DOMAIN cfg.pools

PrioOf(kind) == CASE kind = "finish" -> 80 [] kind = "pass" -> 70 [] kind = "release" -> 60
                  [] kind = "fail" -> 50 [] kind = "check" -> 110 [] kind = "term" -> 10
                  [] kind = "restore" -> 90 [] kind = "mstart" -> 30 [] kind = "mfinish" -> 100
                  [] kind = "psense" -> 40 [] OTHER -> 20

(***************************************************************************)
(* Initial state                                                           *)
(***************************************************************************)
Dev0(d) == [inp |-> 0, out |-> 0, wds |-> FALSE, wsince |-> None, off |-> 0, blocked |-> FALSE,
            down |-> FALSE, held |-> FALSE, wres |-> FALSE, up |-> 0, ut |-> 0,
            buf |-> <<>>, level |-> 0, inprog |-> <<>>, ipb |-> 0,
            supplied |-> 0, budget |-> cfg.devs[d].budget, cost |-> 0,
            count |-> 0, collected |-> <<>>, revenue |-> 0, value |-> 0, nvh |-> 0,
            \* wear of the machine and the kept series of its sensors (output-part sensor s*, periodic sensor p*)
            damage |-> 0, sdata |-> <<>>, sn |-> 0, pdata |-> <<>>, ptime |-> <<>>, pn |-> 0]

(* downstream lists in connection order: devices are connected when they are created (id order), *)
(* except those wired late (an upstream with a larger id), which are connected after all others  *)
RECURSIVE DownOf(_, _, _)
DownOf(d, x, late) == IF x > N THEN <<>>
                      ELSE (IF d \in Range(cfg.devs[x].ups) /\ cfg.devs[x].late = late THEN <<x>> ELSE <<>>)
                           \o DownOf(d, x + 1, late)

S0 == [now |-> 0,
       dev |-> [d \in Devs |-> Dev0(d)],
       down |-> [d \in Devs |-> DownOf(d, 1, FALSE) \o DownOf(d, 1, TRUE)],
       ups |-> [d \in Devs |-> IF Kind(d) = "ginput" THEN cfg.devs[d].vups ELSE cfg.devs[d].ups],
       part |-> <<>>, q |-> {}, pq |-> {}, nextEid |-> 1,
       pool |-> [r \in Resources |-> [used |-> 0, cap |-> cfg.pools[r]]],
       waitq |-> <<>>, lost |-> <<>>,
       cnt |-> [l \in Labels |-> [d \in Devs |-> 0]],
       lastlevel |-> [d \in Devs |-> None],
       lastres |-> [r \in Resources |-> <<0, cfg.pools[r]>>],
       nleaf |-> 0, inited |-> FALSE,
       occ |-> <<>>, sd |-> <<>>,
       sch |-> [i \in DOMAIN cfg.scheds |-> [idx |-> 0, state |-> "-", nrec |-> 0]],
       mt |-> [queue |-> <<>>, active |-> <<>>, util |-> 0, value |-> 0, nvh |-> 0, enter |-> 0, start |-> 0, finish |-> 0]]

(***************************************************************************)
(* Queue                                                                   *)
(***************************************************************************)
Sched(S, t, asset, kind) ==
    [S EXCEPT !.q = @ \cup {[eid |-> S.nextEid, time |-> t, prio |-> PrioOf(kind), asset |-> asset, kind |-> kind,
                             cancelled |-> FALSE, pausedAt |-> None, arg |-> 0]},
              !.nextEid = @ + 1]
SchedArg(S, t, asset, kind, prio, arg) ==
    [S EXCEPT !.q = @ \cup {[eid |-> S.nextEid, time |-> t, prio |-> prio, asset |-> asset, kind |-> kind,
                             cancelled |-> FALSE, pausedAt |-> None, arg |-> arg]},
              !.nextEid = @ + 1]
Before(e, f) == e.time < f.time \/ (e.time = f.time /\ e.prio > f.prio)
MinEvents(Q) == {e \in Q : \A f \in Q : ~Before(f, e)}

PauseEvents(S, a) == LET mv == {e \in S.q : e.asset = a} IN
    [S EXCEPT !.q = @ \ mv, !.pq = @ \cup {[e EXCEPT !.pausedAt = S.now] : e \in mv}]
UnpauseEvents(S, a) == LET mv == {e \in S.pq : e.asset = a} IN
    [S EXCEPT !.pq = @ \ mv,
              !.q = @ \cup {[e EXCEPT !.time = e.time + (S.now - e.pausedAt), !.pausedAt = None] : e \in mv}]
CancelEvents(S, a) ==
    [S EXCEPT !.q = {IF e.asset = a THEN [e EXCEPT !.cancelled = TRUE] ELSE e : e \in @},
              !.pq = {IF e.asset = a THEN [e EXCEPT !.cancelled = TRUE] ELSE e : e \in @}]

Record(S, label, d) == [S EXCEPT !.cnt[label][d] = @ + 1]

(***************************************************************************)
(* Parts                                                                   *)
(***************************************************************************)
IsBatch(S, p) == S.part[p].batch
RECURSIVE LeavesOf(_, _)
LeavesOf(S, p) == IF p = 0 THEN <<>>
                  ELSE IF ~S.part[p].batch THEN <<p>>
                  ELSE LET ls == S.part[p].leaves IN
                       LET RECURSIVE cat(_)
                           cat(i) == IF i > Len(ls) THEN <<>> ELSE LeavesOf(S, ls[i]) \o cat(i + 1)
                       IN cat(1)
NLeaves(S, p) == IF S.part[p].batch THEN Len(S.part[p].leaves) ELSE 1   \* Buffer / Sink count direct members
RECURSIVE SumValue(_, _, _)
RECURSIVE ValueOf(_, _)
SumValue(S, ls, i) == IF i > Len(ls) THEN 0 ELSE ValueOf(S, ls[i]) + SumValue(S, ls, i + 1)
ValueOf(S, p) == IF S.part[p].batch THEN SumValue(S, S.part[p].leaves, 1) ELSE S.part[p].value   \* members may be batches

(* add_routing_history on a part or on a batch and all the parts it contains *)
RECURSIVE AddHist(_, _, _)
AddHist(S, p, d) ==
    LET S1 == [S EXCEPT !.part[p].hist = Append(@, d)] IN
    IF ~S.part[p].batch THEN S1
    ELSE LET ls == S.part[p].leaves IN
         LET RECURSIVE go(_, _)
             go(T, i) == IF i > Len(ls) THEN T ELSE go(AddHist(T, ls[i], d), i + 1)
         IN go(S1, 1)
RECURSIVE DropLastHist(_, _)
DropLastHist(S, p) ==
    LET h == S.part[p].hist
        S1 == [S EXCEPT !.part[p].hist = SubSeq(h, 1, Len(h) - 1)] IN
    IF ~S.part[p].batch THEN S1
    ELSE LET ls == S.part[p].leaves IN
         LET RECURSIVE go(_, _)
             go(T, i) == IF i > Len(ls) THEN T ELSE go(DropLastHist(T, ls[i]), i + 1)
         IN go(S1, 1)

NewPart(S, value, isBatch, lvs) ==
    [S EXCEPT !.part = Append(@, [hist |-> <<>>, gst |-> <<>>, value |-> value, quality |-> IF isBatch THEN 0 ELSE 1,
                                  batch |-> isBatch, leaves |-> lvs,
                                  seq |-> IF isBatch THEN 0 ELSE S.nleaf + 1]),
              !.nleaf = IF isBatch THEN @ ELSE @ + 1]

(* the source's generator: a single part, or a batch of bsrc new parts (leaves first, then the batch) *)
Generate(S, s) ==
    LET b == cfg.devs[s].bsrc
        k == S.dev[s].supplied + 1 IN       \* this is the k-th generation (every earlier one was supplied)
    IF b < 0 \/ (cfg.devs[s].bmix /\ k % 2 = 0) THEN NewPart(S, cfg.devs[s].pval, FALSE, <<>>)
    ELSE LET RECURSIVE mk(_, _, _)
             mk(T, i, m) == IF i > m THEN T ELSE mk(NewPart(T, cfg.devs[s].pval, FALSE, <<>>), i + 1, m)
             n == cfg.devs[s].bnest
             base == Len(S.part) IN
         IF n > 0
         THEN \* a batch of b batches of n new parts each (a user-written generator: the parts of the first
              \* inner batch, that batch, the parts of the second, ..., the outer batch last)
              LET RECURSIVE mkin(_, _)
                  mkin(T, i) == IF i > b THEN T
                                ELSE LET f == Len(T.part) + 1 IN
                                     mkin(NewPart(mk(T, 1, n), 0, TRUE, [j \in 1..n |-> f + j - 1]), i + 1)
              IN NewPart(mkin(S, 1), 0, TRUE, [i \in 1..b |-> base + i * (n + 1)])
         ELSE NewPart(mk(S, 1, b), 0, TRUE, [i \in 1..b |-> base + i])

AddValue(S, d, v) == IF v = 0 THEN S ELSE [S EXCEPT !.dev[d].value = @ + v, !.dev[d].nvh = @ + 1]

(***************************************************************************)
(* Devices: the synchronous call structure                                 *)
(***************************************************************************)
Operational(S, d) == ~(Kind(d) = "processor" /\ S.dev[d].down)
Pred(S, g, p) == LET pr == cfg.devs[g].pred
                     sq == S.part[p].seq IN
                 CASE pr = "even" -> sq % 2 = 0
                   [] pr = "odd"  -> sq % 2 = 1
                   [] pr = "q1"   -> S.part[p].quality = 1
                   [] pr = "q2"   -> S.part[p].quality # 1
                   [] pr = "qeq2" -> S.part[p].quality = 2
                   [] pr = "qge3" -> S.part[p].quality >= 3
                   [] OTHER       -> TRUE

(* waiting_for_part_start_time: own for holding devices, earliest of the downstreams otherwise *)
RECURSIVE WaitKey(_, _, _)
WaitKey(S, d, depth) ==
    IF Kind(d) \in Holding THEN (IF S.dev[d].wsince = None THEN 1000000 ELSE S.dev[d].wsince)
    ELSE IF depth > N THEN 1000000
    ELSE LET ds == S.down[d] IN
         LET RECURSIVE mn(_)
             mn(i) == IF i > Len(ds) THEN 1000000
                      ELSE LET a == WaitKey(S, ds[i], depth + 1) b == mn(i + 1) IN IF a < b THEN a ELSE b
         IN mn(1)

(* stable sort of the downstream list by waiting-since (sorted(...) in Python is stable) *)
(* inserting in original order with strict < keeps equal keys in original order *)
RECURSIVE InsertStable(_, _, _)
InsertStable(S, sorted, x) ==
    IF sorted = <<>> THEN <<x>>
    ELSE IF WaitKey(S, x, 0) < WaitKey(S, Head(sorted), 0) THEN <<x>> \o sorted
    ELSE <<Head(sorted)>> \o InsertStable(S, Tail(sorted), x)
RECURSIVE SortFrom(_, _, _, _)
SortFrom(S, ds, i, acc) == IF i > Len(ds) THEN acc ELSE SortFrom(S, ds, i + 1, InsertStable(S, acc, ds[i]))
SortedDown(S, d) == SortFrom(S, S.down[d], 1, <<>>)

SetWaiting(S, d) == IF S.dev[d].wsince # None THEN S ELSE [S EXCEPT !.dev[d].wsince = S.now]

SchedulePassAt(S, d, t) == Sched([S EXCEPT !.dev[d].wds = FALSE], t, d, "pass")
SchedulePass(S, d) == IF Kind(d) = "sink" THEN S ELSE SchedulePassAt(S, d, S.now)

Fits(S, req) == \A r \in DOMAIN req : req[r] > 0 => (r \in Resources /\ S.pool[r].cap - S.pool[r].used >= req[r])
ScheduleCheck(S) == Sched(S, S.now, -1, "check")
TakeRes(S, req) ==
    LET rs == {r \in DOMAIN req : req[r] > 0} IN
    [S EXCEPT !.pool = [r \in Resources |-> IF r \in rs THEN [@[r] EXCEPT !.used = @ + req[r]] ELSE @[r]],
              !.lastres = [r \in Resources |-> IF r \in rs THEN <<S.pool[r].used + req[r], S.pool[r].cap>> ELSE @[r]]]
GiveRes(S, req) ==
    LET rs == {r \in DOMAIN req : req[r] > 0} IN
    ScheduleCheck(
    [S EXCEPT !.pool = [r \in Resources |-> IF r \in rs THEN [@[r] EXCEPT !.used = @ - req[r]] ELSE @[r]],
              !.lastres = [r \in Resources |-> IF r \in rs THEN <<S.pool[r].used - req[r], S.pool[r].cap>> ELSE @[r]]])
NeedsRes(d) == Kind(d) = "processor" /\ DOMAIN cfg.devs[d].req # {}
ReleaseHeld(S, d) == IF S.dev[d].held THEN GiveRes([S EXCEPT !.dev[d].held = FALSE], cfg.devs[d].req) ELSE S

GInput(P) == cfg.devs[P].gin          \* device id of the group's input / output pseudo-device
GOutput(P) == cfg.devs[P].gout
PassThrough == {"gate", "junction", "gpath", "ginput", "goutput"}

RECURSIVE NotifyUp(_, _, _), SpaceAvail(_, _, _)
(* notify_upstream_of_available_space *)
NotifyUp(S, d, depth) ==
    IF depth > 3 * N THEN S
    ELSE LET S1 == IF Kind(d) \in Holding THEN SetWaiting(S, d) ELSE S
             us == S.ups[d] IN
         IF Kind(d) = "buffer" /\ ~(cfg.devs[d].cap = None \/ S.dev[d].level < cfg.devs[d].cap) THEN S
         ELSE LET RECURSIVE go(_, _)
                  go(T, i) == IF i > Len(us) THEN T ELSE go(SpaceAvail(T, us[i], depth + 1), i + 1)
              IN go(S1, 1)
(* space_available_downstream *)
SpaceAvail(S, u, depth) ==
    IF Kind(u) \in Holding
    THEN (IF Operational(S, u) /\ S.dev[u].wds THEN SchedulePass(S, u) ELSE S)
    ELSE IF Kind(u) = "gpath" THEN NotifyUp(S, GOutput(u), depth)     \* the group's output devices may retry
    ELSE (IF Operational(S, u) THEN NotifyUp(S, u, depth) ELSE S)

(* _schedule_finish_cycle / _finish_cycle / _try_move_part_to_output and give_part are mutually recursive *)
(* only through zero cycle times (a finish that happens inside the accept)                              *)
RECURSIVE FinishCycle(_, _), TryMoveToOutput(_, _), Give(_, _, _, _), GiveFirst(_, _, _, _, _)

CycleInEffect(S, d, p) ==
    LET c == cfg.devs[d] IN
    IF Kind(d) \in {"buffer", "batcher"} THEN 0       \* no cycle time of their own
    ELSE IF Kind(d) = "processor" /\ c.cycmod > 0 THEN c.cyc + (S.part[p].seq % c.cycmod) ELSE c.cyc

(* Sensors on a processor and the condition-monitoring system (defined with the maintainer below) *)
RECURSIVE OutputSense(_, _, _)

ScheduleFinish(S, d, ct) ==
    LET t == Max(0, ct + S.dev[d].off)
        S1 == [S EXCEPT !.dev[d].off = 0] IN
    IF t <= 0 THEN FinishCycle(S1, d) ELSE Sched(S1, S.now + t, d, "finish")

(* _finish_cycle of each kind (the code asserts that a part is in process: a finish event without *)
(* one cannot occur in the specification and is a no-op here so that the operator stays total)  *)
FinishCycle(S, d) ==
    CASE Kind(d) # "source" /\ S.dev[d].inp = 0 -> S
      [] Kind(d) = "source" ->
            LET S1 == IF S.dev[d].out = 0
                      THEN LET G == Generate(S, d)
                               p == Len(G.part) IN
                           AddHist([G EXCEPT !.dev[d].out = p], p, d)
                      ELSE S IN
            SchedulePass(S1, d)
      [] Kind(d) = "sink" ->
            NotifyUp([S EXCEPT !.dev[d].inp = 0, !.dev[d].out = 0], d, 0)
      [] Kind(d) = "processor" ->
            LET p == S.dev[d].inp
                S1 == SchedulePass([S EXCEPT !.dev[d].out = p, !.dev[d].inp = 0], d)
                S2 == IF S1.dev[d].held THEN Sched(S1, S.now, d, "release") ELSE S1
                c == cfg.devs[d]
                \* finish-processing callbacks of the configuration: value added, quality set (per leaf)
                ls == LeavesOf(S2, p)
                S3 == [S2 EXCEPT !.part = [i \in DOMAIN @ |->
                          IF i \in Range(ls)
                          THEN [@[i] EXCEPT !.value = @ + c.vadd,
                                            !.quality = IF c.wear > 0 THEN S2.dev[d].damage + c.wear
                                                        ELSE IF c.qset > 0 THEN 1 + (S2.part[i].seq % c.qset)
                                                        ELSE IF c.qinc THEN @ + 1 ELSE @]
                          ELSE @[i]],
                               !.dev[d].damage = @ + c.wear]
                S4 == [S3 EXCEPT !.dev[d].off = @ + c.foff,
                                 !.occ = Append(@, <<"prod", d, p, S3.part[p].quality, ValueOf(S3, p), 0, 0>>)] IN
            \* the output-part sensor's callback was registered after the configuration's own
            Record(OutputSense(S4, d, p), "produced_part", d)
      [] OTHER ->   \* handler
            SchedulePass([S EXCEPT !.dev[d].out = S.dev[d].inp, !.dev[d].inp = 0], d)

(* _try_move_part_to_output after a part was received *)
TryMoveToOutput(S, d) ==
    CASE Kind(d) = "buffer" ->
            LET p == S.dev[d].inp
                S1 == [S EXCEPT !.dev[d].buf = Append(@, <<S.now, p>>), !.dev[d].inp = 0]
                S2 == NotifyUp(S1, d, 0) IN
            IF Len(S1.dev[d].buf) = 1 THEN SchedulePassAt(S2, d, S.now + cfg.devs[d].delay) ELSE S2
      [] Kind(d) = "batcher" ->
            IF S.dev[d].inp = 0 \/ S.dev[d].out # 0 THEN S
            ELSE IF S.part[S.dev[d].inp].batch /\ S.part[S.dev[d].inp].leaves = <<>>
                 THEN [S EXCEPT !.dev[d].inp = 0]      \* an empty input batch is deleted
            ELSE LET n == cfg.devs[d].bsize IN
                 LET RECURSIVE move(_)
                     move(T) ==
                        IF T.dev[d].out # 0 \/ T.dev[d].inp = 0 THEN T
                        ELSE LET ip == T.dev[d].inp
                                 isb == T.part[ip].batch
                                 x == IF isb THEN Head(T.part[ip].leaves) ELSE ip
                                 \* take the next part out of the input
                                 T1 == IF isb
                                       THEN (IF Len(T.part[ip].leaves) = 1
                                             THEN [T EXCEPT !.part[ip].leaves = <<>>, !.dev[d].inp = 0]
                                             ELSE [T EXCEPT !.part[ip].leaves = Tail(@)])
                                       ELSE [T EXCEPT !.dev[d].inp = 0]
                             IN IF n <= 0 THEN move([T1 EXCEPT !.dev[d].out = x])
                                ELSE LET T2 == IF T1.dev[d].ipb = 0
                                               THEN LET G == NewPart(T1, 0, TRUE, <<>>) IN
                                                    [G EXCEPT !.dev[d].ipb = Len(G.part)]
                                               ELSE T1
                                         b == T2.dev[d].ipb
                                         T3 == [T2 EXCEPT !.part[b].leaves = Append(@, x), !.dev[d].inprog = Append(@, x)] IN
                                     IF Len(T3.part[b].leaves) >= n
                                     THEN move([T3 EXCEPT !.dev[d].out = b, !.dev[d].ipb = 0, !.dev[d].inprog = <<>>])
                                     ELSE move(T3)
                     R == move(S) IN
                 IF R.dev[d].out # 0 THEN SchedulePass(R, d) ELSE R
      [] OTHER ->
            IF Operational(S, d) /\ S.dev[d].inp # 0 /\ S.dev[d].out = 0
            THEN ScheduleFinish(S, d, CycleInEffect(S, d, S.dev[d].inp))
            ELSE S

(* _accept_part + _on_received_new_part *)
Accept(S, d, p) ==
    LET S1 == AddHist([S EXCEPT !.dev[d].inp = p, !.dev[d].wsince = None], p, d)
        S2 == CASE Kind(d) = "buffer" ->
                     [S1 EXCEPT !.dev[d].level = @ + NLeaves(S1, p), !.lastlevel[d] = S1.dev[d].level + NLeaves(S1, p),
                                !.cnt["level"][d] = @ + 1]
                [] Kind(d) = "sink" ->
                     AddValue([S1 EXCEPT !.dev[d].count = @ + NLeaves(S1, p), !.dev[d].revenue = @ + ValueOf(S1, p),
                                         !.dev[d].collected = Append(@, p)], d, ValueOf(S1, p))
                [] OTHER -> S1
        S3 == Record(S2, "received_part", d)
        \* receive callback of the configuration: one-shot offset for even parts
        S4 == IF ~S3.part[p].batch /\ S3.part[p].seq % 2 = 0
              THEN [S3 EXCEPT !.dev[d].off = @ + cfg.devs[d].offmod + cfg.devs[d].offmod2] ELSE S3
        S5a == [S4 EXCEPT !.occ = Append(@, <<"recv", d, p, S4.part[p].quality, ValueOf(S4, p),
                                              CycleInEffect(S4, d, p), S4.dev[d].off>>)]
        \* a sink's receive callback of the configuration may add value to the received parts afterwards
        S5 == IF Kind(d) = "sink" /\ cfg.devs[d].vadd # 0
              THEN LET ls == LeavesOf(S5a, p) IN
                   [S5a EXCEPT !.part = [i \in DOMAIN @ |-> IF i \in Range(ls) THEN [@[i] EXCEPT !.value = @ + cfg.devs[d].vadd] ELSE @[i]]]
              ELSE S5a IN
    IF S5.dev[d].out = 0 THEN TryMoveToOutput(S5, d) ELSE S5

(* Shared-machine groups: a group path P (a device of the line) pushes itself on the part's path   *)
(* stack and hands the part to the group's input pseudo-device; the output pseudo-device hands a   *)
(* part leaving the group to the downstream devices of the path on top of the stack and pops it.   *)

(* give_part: [ok, S].  A refusal by a processor may still change the state (waiting for resources). *)
Give(S, d, p, depth) ==
    IF depth > 3 * N THEN [ok |-> FALSE, S |-> S]
    ELSE
    CASE Kind(d) = "gpath" ->
            IF S.dev[d].blocked THEN [ok |-> FALSE, S |-> S]
            ELSE LET S1 == AddHist([S EXCEPT !.part[p].gst = Append(@, d)], p, d)
                     r == Give(S1, GInput(d), p, depth + 1) IN
                 IF r.ok THEN r
                 ELSE [ok |-> FALSE, S |-> DropLastHist([r.S EXCEPT !.part[p].gst = SubSeq(@, 1, Len(@) - 1)], p)]
      [] Kind(d) = "ginput" ->
            GiveFirst(S, SortedDown(S, d), 1, p, depth + 1)
      [] Kind(d) = "goutput" ->
            \* the part leaves the group (pop) before it is passed on: the next device may be the output of an
            \* enclosing group; a refusal puts the path back
            LET P == S.part[p].gst[Len(S.part[p].gst)]
                S1 == [S EXCEPT !.part[p].gst = SubSeq(@, 1, Len(@) - 1)]
                r == GiveFirst(S1, SortedDown(S1, P), 1, p, depth + 1) IN
            IF r.ok THEN r ELSE [ok |-> FALSE, S |-> [r.S EXCEPT !.part[p].gst = Append(@, P)]]
      [] Kind(d) \in {"gate", "junction"} ->
            IF ~Pred(S, d, p) \/ S.dev[d].blocked THEN [ok |-> FALSE, S |-> S]
            ELSE LET r == GiveFirst(AddHist(S, p, d), SortedDown(AddHist(S, p, d), d), 1, p, depth + 1) IN
                 IF r.ok THEN r ELSE [ok |-> FALSE, S |-> DropLastHist(r.S, p)]
      [] Kind(d) = "buffer" ->
            IF (cfg.devs[d].cap # None /\ S.dev[d].level + NLeaves(S, p) > cfg.devs[d].cap) \/ S.dev[d].blocked
               \/ S.dev[d].inp # 0 \/ S.dev[d].out # 0
            THEN [ok |-> FALSE, S |-> S] ELSE [ok |-> TRUE, S |-> Accept(S, d, p)]
      [] Kind(d) = "processor" ->
            IF S.dev[d].down \/ S.dev[d].blocked \/ S.dev[d].inp # 0 \/ S.dev[d].out # 0 THEN [ok |-> FALSE, S |-> S]
            ELSE IF NeedsRes(d) /\ ~S.dev[d].held
                 THEN (IF Fits(S, cfg.devs[d].req)
                       THEN [ok |-> TRUE, S |-> Accept([TakeRes(S, cfg.devs[d].req) EXCEPT !.dev[d].held = TRUE], d, p)]
                       ELSE [ok |-> FALSE,
                             S |-> IF S.dev[d].wres THEN S
                                   ELSE ScheduleCheck([S EXCEPT !.dev[d].wres = TRUE, !.waitq = Append(@, d)])])
                 ELSE [ok |-> TRUE, S |-> Accept(S, d, p)]
      [] OTHER ->   \* source (never offered), handler, sink, batcher
            IF S.dev[d].blocked \/ S.dev[d].inp # 0 \/ S.dev[d].out # 0 THEN [ok |-> FALSE, S |-> S]
            ELSE [ok |-> TRUE, S |-> Accept(S, d, p)]

GiveFirst(S, ds, i, p, depth) ==
    IF i > Len(ds) THEN [ok |-> FALSE, S |-> S]
    ELSE LET r == Give(S, ds[i], p, depth) IN
         IF r.ok THEN r ELSE GiveFirst(r.S, ds, i + 1, p, depth)

(***************************************************************************)
(* Event bodies                                                            *)
(***************************************************************************)
Remaining(S, s) == IF S.dev[s].budget = None THEN 1000000 ELSE Max(S.dev[s].budget - S.dev[s].supplied, 0)

(* PartHandler._pass_part_downstream *)
PassCore(S, d) ==
    IF ~Operational(S, d) \/ S.dev[d].out = 0 THEN S
    ELSE LET r == GiveFirst(S, SortedDown(S, d), 1, S.dev[d].out, 0) IN
         IF r.ok THEN NotifyUp([r.S EXCEPT !.dev[d].out = 0], d, 0)
         ELSE [r.S EXCEPT !.dev[d].wds = TRUE]

(* Buffer._pass_part_downstream: hand over from the front while the minimum delay has passed *)
RECURSIVE BufferLoop(_, _)
BufferLoop(S, d) ==
    IF S.dev[d].buf = <<>> THEN S
    ELSE LET h == Head(S.dev[d].buf) IN
         IF h[1] + cfg.devs[d].delay > S.now THEN S
         ELSE LET n == NLeaves(S, h[2])
                  r == GiveFirst(S, SortedDown(S, d), 1, h[2], 0) IN
              IF r.ok
              THEN BufferLoop([r.S EXCEPT !.dev[d].buf = Tail(@), !.dev[d].level = @ - n,
                                          !.lastlevel[d] = r.S.dev[d].level - n, !.cnt["level"][d] = @ + 1], d)
              ELSE r.S
BufferPass(S, d) ==
    LET S1 == BufferLoop(S, d)
        S2 == IF S1.dev[d].buf # <<>>
              THEN LET rem == Head(S1.dev[d].buf)[1] + cfg.devs[d].delay - S1.now IN
                   IF rem > 0 THEN SchedulePassAt(S1, d, S1.now + rem) ELSE [S1 EXCEPT !.dev[d].wds = TRUE]
              ELSE S1 IN
    NotifyUp(S2, d, 0)

PassPart(S, d) ==
    CASE Kind(d) = "buffer" -> BufferPass(S, d)
      [] Kind(d) = "source" ->
            IF Remaining(S, d) < 1 \/ S.dev[d].out = 0 THEN S
            ELSE LET p == S.dev[d].out
                     v == ValueOf(S, p)
                     S1 == PassCore(S, d) IN
                 IF S1.dev[d].out = 0
                 THEN ScheduleFinish(Record(AddValue([S1 EXCEPT !.dev[d].supplied = @ + 1, !.dev[d].cost = @ + v], d, -v),
                                            "supplied_new_part", d), d, cfg.devs[d].cyc)
                 ELSE S1
      [] Kind(d) = "batcher" ->
            LET S1 == PassCore(S, d) IN IF S1.dev[d].out = 0 THEN TryMoveToOutput(S1, d) ELSE S1
      [] OTHER -> PassCore(S, d)

ReleaseIfIdle(S, d) == IF S.dev[d].down \/ S.dev[d].inp = 0 THEN ReleaseHeld(S, d) ELSE S

(* PartProcessor._shutdown; three shutdown callbacks are registered on every processor *)
Cb3(S, kind, d, isf, p) == [S EXCEPT !.sd = @ \o << <<kind, d, 1, isf, p>>, <<kind, d, 2, isf, p>>, <<kind, d, 3, isf, p>> >>]
Shutdown(S, d, isFailure, lost) ==
    IF S.dev[d].down THEN (IF isFailure THEN Cb3(CancelEvents(S, d), "down", d, TRUE, lost) ELSE S)
    ELSE LET S1 == [S EXCEPT !.dev[d].down = TRUE, !.dev[d].wsince = None] IN
         Cb3(IF isFailure THEN CancelEvents(S1, d) ELSE PauseEvents(S1, d), "down", d, isFailure, lost)

(* PartProcessor._fail *)
Fail(S, d) ==
    LET p == S.dev[d].inp
        S1 == ReleaseHeld([S EXCEPT !.dev[d].inp = 0], d)
        S2 == Record(S1, "device_failure", d)
        S3 == IF p # 0 THEN [S2 EXCEPT !.lost = Append(@, <<d, p>>)] ELSE S2 IN
    Shutdown(S3, d, TRUE, p)

(* PartProcessor.restore_functionality *)
Restore(S, d) ==
    IF ~S.dev[d].down THEN S
    ELSE LET S1 == UnpauseEvents([S EXCEPT !.dev[d].down = FALSE], d)
             S2 == IF S1.dev[d].out # 0 THEN SchedulePass(S1, d)
                   ELSE IF S1.dev[d].inp = 0 THEN NotifyUp(S1, d, 0) ELSE S1 IN
         Cb3(S2, "up", d, FALSE, 0)

(* ResourceManager._check_pending_requests with the processors' callback *)
RECURSIVE ScanWaiters(_, _)
ScanWaiters(S, i) ==
    IF i > Len(S.waitq) THEN S
    ELSE LET d == S.waitq[i] IN
         IF Fits(S, cfg.devs[d].req)
         THEN ScanWaiters(NotifyUp([S EXCEPT !.dev[d].wres = FALSE, !.waitq = RemoveAt(@, i)], d, 0), i)
         ELSE ScanWaiters(S, i + 1)
CheckPending(S) == ScanWaiters(S, 1)

(* scripted calls *)
SetBlock(S, d, b) ==
    IF S.dev[d].blocked = b THEN S
    ELSE LET S1 == [S EXCEPT !.dev[d].blocked = b] IN IF b THEN S1 ELSE NotifyUp(S1, d, 0)
AddRes(S, r, n) ==
    IF n = 0 \/ (n < 0 /\ S.pool[r].cap + n < 0) THEN S
    ELSE ScheduleCheck([S EXCEPT !.pool[r].cap = @ + n, !.lastres[r] = <<S.pool[r].used, S.pool[r].cap + n>>])
Adjust(S, s, v) ==
    IF S.dev[s].budget = None THEN S
    ELSE LET wasEmpty == S.dev[s].budget - S.dev[s].supplied < 1
             S1 == [S EXCEPT !.dev[s].budget = Max(@ + v, S.dev[s].supplied)] IN
         IF wasEmpty THEN SchedulePass(S1, s) ELSE S1

(* Maintainer: work orders on processors (default start_work = shutdown, end_work = restore);    *)
(* the configuration gives every processor a duration, needed capacity and cost per order       *)
MtId == -1000
TagNo(tag) == IF tag = "y" THEN 1 ELSE 0
OrderArg(o) == o[1] * 10 + TagNo(o[2])
OrderOf(arg) == <<arg \div 10, IF arg % 10 = 1 THEN "y" ELSE "x">>
WoCap(d) == cfg.devs[d].wocap
MtCap == IF cfg.maintcap = None THEN 1000000 ELSE cfg.maintcap
RECURSIVE ScanOrders(_, _)
ScanOrders(S, i) ==
    IF i > Len(S.mt.queue) THEN S
    ELSE LET o == S.mt.queue[i] IN
         IF S.mt.util <= MtCap - WoCap(o[1]) /\ ~\E a \in Range(S.mt.active) : a[1] = o[1]
         THEN ScanOrders(SchedArg([S EXCEPT !.mt.queue = RemoveAt(@, i), !.mt.active = Append(@, o),
                                            !.mt.util = @ + WoCap(o[1])],
                                  S.now, MtId, "mstart", 30, OrderArg(o)), i)
         ELSE ScanOrders(S, i + 1)
CreateOrder(S, d, tag) ==
    IF \E o \in Range(S.mt.queue) \cup Range(S.mt.active) : o = <<d, tag>> THEN S
    ELSE ScanOrders([S EXCEPT !.mt.queue = Append(@, <<d, tag>>), !.mt.enter = @ + 1], 1)
StartOrder(S, arg) ==
    LET o == OrderOf(arg)
        d == o[1]
        c == cfg.devs[d].wocost
        S1 == [S EXCEPT !.mt.start = @ + 1, !.mt.value = @ - c, !.mt.nvh = IF c = 0 THEN @ ELSE @ + 1]
        S2 == Shutdown(S1, d, FALSE, 0) IN
    SchedArg(S2, S.now + cfg.devs[d].wodur, MtId, "mfinish", 100, arg)
FinishOrder(S, arg) ==
    LET o == OrderOf(arg)
        d == o[1]
        S0r == Restore(S, d)
        S1 == IF cfg.devs[d].wear > 0 THEN [S0r EXCEPT !.dev[d].damage = 0] ELSE S0r      \* the repair
        i == CHOOSE j \in DOMAIN S1.mt.active : S1.mt.active[j] = o IN
    ScanOrders([S1 EXCEPT !.mt.util = @ - WoCap(d), !.mt.active = RemoveAt(@, i), !.mt.finish = @ + 1], 1)

(* Sensors.  A measurement appends a copy of the probed value to the kept series (the most recent  *)
(* scap entries), then calls the on-sense callbacks in registration order: the observer's, then the *)
(* monitoring system's, which requests a work order (tag x) when the reading reaches the threshold *)
KeepLast(s, cap) == IF cap = None \/ Len(s) <= cap THEN s ELSE SubSeq(s, Len(s) - cap + 1, Len(s))
Monitor(S, d, which, v) ==
    LET S1 == [S EXCEPT !.occ = @ \o << <<"sense", d, 1, which, v, S.now, 0>>, <<"cms", d, 1, which, v, S.now, 0>> >>] IN
    IF cfg.devs[d].thr > 0 /\ v >= cfg.devs[d].thr THEN CreateOrder(S1, d, "x") ELSE S1
(* OutputPartSensor: the first finished part and then every (sint+1)-th *)
OutputSense(S, d, p) ==
    LET c == cfg.devs[d] IN
    IF c.sint < 0 \/ S.cnt["produced_part"][d] % (c.sint + 1) # 0 THEN S
    ELSE LET v == S.part[p].quality IN
         Monitor([S EXCEPT !.dev[d].sdata = KeepLast(Append(@, v), c.scap), !.dev[d].sn = @ + 1], d, 0, v)
(* PeriodicSensor on the machine's damage: every pint ticks, whatever the machine is doing *)
PSensorId(d) == -4000 - d
PeriodicSense(S, d) ==
    LET c == cfg.devs[d]
        v == S.dev[d].damage
        S1 == [S EXCEPT !.dev[d].pdata = KeepLast(Append(@, v), c.scap), !.dev[d].ptime = KeepLast(Append(@, S.now), c.scap),
                        !.dev[d].pn = @ + 1] IN
    SchedArg(Monitor(S1, d, 1, v), S.now + c.pint, PSensorId(d), "psense", 40, d)

(* set_upstream during the run: a holding device that is waiting restarts its waiting time; the  *)
(* old upstreams forget it; every new upstream appends it to its downstream list and, being told *)
(* about the new possibility, retries a pending hand-over                                         *)
Rewire(S, d, new) ==
    LET S1 == IF Kind(d) \in Holding /\ S.dev[d].wsince # None THEN [S EXCEPT !.dev[d].wsince = S.now] ELSE S
        S2 == [S1 EXCEPT !.down = [u \in Devs |-> IF u \in Range(S.ups[d])
                                                   THEN SelectSeq(S1.down[u], LAMBDA x : x # d) ELSE S1.down[u]],
                         !.ups[d] = new] IN
    LET RECURSIVE go(_, _)
        go(T, i) == IF i > Len(new) THEN T
                    ELSE LET u == new[i] IN
                         IF d \in Range(T.down[u]) THEN go(T, i + 1)
                         ELSE go(SpaceAvail([T EXCEPT !.down[u] = Append(@, d)], u, 0), i + 1)
    IN go(S2, 1)

(* ActionScheduler attached to floor devices (the OperatingSchedule shape): entering timetable      *)
(* entry k sets the state, writes one schedule_update record, runs the action for every target in   *)
(* registration order and schedules the next transition                                              *)
SchedId(i) == -2000 - i
RECURSIVE ApplyTo(_, _, _, _)
ApplyTo(S, ts, k, off) == IF k > Len(ts) THEN S ELSE ApplyTo(SetBlock(S, ts[k], off), ts, k + 1, off)
EnterSched(S, i, k) ==
    LET c == cfg.scheds[i]
        st == c.tt[k][2]
        S1 == [S EXCEPT !.sch[i] = [idx |-> k, state |-> st, nrec |-> @.nrec + 1]]
        S2 == ApplyTo(S1, c.targets, 1, st = "off") IN
    SchedArg(S2, S.now + c.tt[k][1], SchedId(i), "sched", 110, i)
SchedTransition(S, i) ==
    LET c == cfg.scheds[i]
        k == S.sch[i].idx + 1 IN
    IF ~c.cyc /\ k > Len(c.tt) THEN [S EXCEPT !.sch[i].idx = k]
    ELSE EnterSched(S, i, ((k - 1) % Len(c.tt)) + 1)

Script(S, c) ==
    CASE c.call = "fail"     -> SchedArg(S, S.now + c.arg, c.dev, "fail", 50, 0)
      [] c.call = "shutdown" -> Shutdown(S, c.dev, FALSE, 0)
      [] c.call = "restore"  -> Restore(S, c.dev)
      [] c.call = "block"    -> SetBlock(S, c.dev, TRUE)
      [] c.call = "unblock"  -> SetBlock(S, c.dev, FALSE)
      [] c.call = "addres"   -> AddRes(S, c.res, c.arg)
      [] c.call = "adjust"   -> Adjust(S, c.dev, c.arg)
      [] c.call = "noise"    -> AddValue(S, c.dev, c.arg)
      [] c.call = "partnoise" -> LET p == S.dev[c.dev].out IN      \* the part waiting in a source's output changes its value
                                 IF p = 0 \/ S.part[p].batch THEN S ELSE [S EXCEPT !.part[p].value = @ + c.arg]
      [] c.call = "workorder" -> CreateOrder(S, c.dev, c.res)
      [] c.call = "rewire"   -> Rewire(S, c.dev, c.ups)
      [] OTHER -> S

(* the clock moves: uptime and utilisation of every processor follow *)
Tick(S, t) ==
    LET dt == t - S.now IN
    [S EXCEPT !.now = t,
              !.dev = [d \in Devs |->
                         IF Kind(d) = "processor" /\ ~S.dev[d].down
                         THEN [@[d] EXCEPT !.up = @ + dt, !.ut = IF S.dev[d].inp # 0 THEN @ + dt ELSE @]
                         ELSE @[d]]]

(* Environment.step with e the popped event *)
Dispatch(S, e) ==
    LET S1 == [Tick(S, e.time) EXCEPT !.q = @ \ {e}, !.occ = <<>>, !.sd = <<>>] IN
    IF e.cancelled THEN S1
    ELSE CASE e.kind = "finish"  -> FinishCycle(S1, e.asset)
           [] e.kind = "pass"    -> PassPart(S1, e.asset)
           [] e.kind = "release" -> ReleaseIfIdle(S1, e.asset)
           [] e.kind = "fail"    -> Fail(S1, e.asset)
           [] e.kind = "check"   -> CheckPending(S1)
           [] e.kind = "script"  -> Script(S1, cfg.script[e.arg])
           [] e.kind = "sched"   -> SchedTransition(S1, e.arg)
           [] e.kind = "mstart"  -> StartOrder(S1, e.arg)
           [] e.kind = "mfinish" -> FinishOrder(S1, e.arg)
           [] e.kind = "psense"  -> PeriodicSense(S1, e.arg)
           [] OTHER -> S1

(* System.simulate, first call: initialise every asset in creation order; schedule the script *)
Initialise(S) ==
    LET RECURSIVE go(_, _)
        go(T, d) == IF d > N THEN T
                    ELSE LET T1 == IF Kind(d) \in Holding THEN [T EXCEPT !.dev[d].wsince = T.now] ELSE T IN
                         go(IF Kind(d) = "source" THEN ScheduleFinish(T1, d, cfg.devs[d].cyc) ELSE T1, d + 1)
        RECURSIVE sc(_, _)
        sc(T, i) == IF i > Len(cfg.script) THEN T
                    ELSE sc(IF cfg.script[i].between THEN T
                            ELSE SchedArg(T, cfg.script[i].t, -2, "script", cfg.script[i].prio, i), i + 1)
        RECURSIVE sd(_, _)
        sd(T, i) == IF i > Len(cfg.scheds) THEN T ELSE sd(EnterSched(T, i, 1), i + 1)
        RECURSIVE ps(_, _)
        ps(T, d) == IF d > N THEN T
                    ELSE ps(IF Kind(d) = "processor" /\ cfg.devs[d].pint > 0
                            THEN SchedArg(T, T.now + cfg.devs[d].pint, PSensorId(d), "psense", 40, d) ELSE T, d + 1)
    IN sc(ps(sd(go([S EXCEPT !.inited = TRUE], 1), 1), 1), 1)
=============================================================================
