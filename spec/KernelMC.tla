------------------------------ MODULE KernelMC ------------------------------
(***************************************************************************)
(* Closed specification of the kernel: an arbitrary client issues          *)
(* schedule / step / run / pause / unpause / cancel calls, and event       *)
(* bodies issue the same calls from inside actions.  TLC explores every    *)
(* interleaving and every tie-break (Step picks any minimal event).        *)
(* hist records the calls so that behaviours can be replayed on the real   *)
(* Environment (it is hidden from the fingerprint by a VIEW in the         *)
(* exhaustive configuration).                                              *)
(***************************************************************************)
EXTENDS Kernel, TLC, Json

CONSTANTS Assets, Prios, Deltas, BodyChoices, RunDurs,
          MaxOps, MaxLive, MaxNow, EmitHist

VARIABLES K, mode, runT0, runD, nops, hist

vars == <<K, mode, runT0, runD, nops, hist>>
view == <<K, mode, runT0, runD, nops>>

Live(S) == Cardinality(S.queue) + Cardinality(S.paused)

Init == /\ K = InitK /\ mode = "idle" /\ runT0 = 0 /\ runD = 0 /\ nops = 0 /\ hist = <<>>

Rec(h) == /\ hist' = Append(hist, h) /\ nops' = nops + 1

Idle == mode = "idle" /\ nops < MaxOps

OpSched == /\ Idle /\ Live(K) < MaxLive
           /\ \E dt \in Deltas, p \in Prios, a \in Assets, b \in BodyChoices :
                /\ K' = Sched(K, K.now + dt, p, a, b)
                /\ Rec([op |-> "sched", dt |-> dt, prio |-> p, asset |-> a, body |-> b])
           /\ UNCHANGED <<mode, runT0, runD>>

OpSchedPast == /\ Idle /\ K.now > 0
               /\ K' = Sched(K, K.now - 1, 70, 1, 0)
               /\ Rec([op |-> "sched", dt |-> -1, prio |-> 70, asset |-> 1, body |-> 0])
               /\ UNCHANGED <<mode, runT0, runD>>

OpStep == /\ Idle
          /\ \E e \in MinEvents(K.queue) :
                /\ K' = Step(K, e)
                /\ Rec([op |-> "step", eid |-> e.eid])
          /\ UNCHANGED <<mode, runT0, runD>>

OpRun == /\ Idle
         /\ \E d \in RunDurs :
                /\ K' = RunBegin(K, d)
                /\ runT0' = K.now /\ runD' = d
                /\ Rec([op |-> "run", d |-> d])
         /\ mode' = "running"

RunStep == /\ mode = "running" /\ ~K.term
           /\ \E e \in MinEvents(K.queue) :
                /\ K' = Step(K, e)
                /\ Rec([op |-> "rstep", eid |-> e.eid])
           /\ UNCHANGED <<mode, runT0, runD>>

RunEnd == /\ mode = "running" /\ K.term
          /\ mode' = "idle"
          /\ UNCHANGED <<K, runT0, runD, nops, hist>>

OpPause == /\ Idle /\ \E a \in Assets : K' = Pause(K, a) /\ Rec([op |-> "pause", asset |-> a])
           /\ UNCHANGED <<mode, runT0, runD>>
OpUnpause == /\ Idle /\ \E a \in Assets : K' = Unpause(K, a) /\ Rec([op |-> "unpause", asset |-> a])
             /\ UNCHANGED <<mode, runT0, runD>>
OpCancel == /\ Idle /\ \E a \in Assets : K' = Cancel(K, a) /\ Rec([op |-> "cancel", asset |-> a])
            /\ UNCHANGED <<mode, runT0, runD>>

Next == OpSched \/ OpSchedPast \/ OpStep \/ OpRun \/ RunStep \/ RunEnd
        \/ OpPause \/ OpUnpause \/ OpCancel

Spec == Init /\ [][Next]_vars

Bound == /\ K.now <= MaxNow /\ Live(K) <= MaxLive + 1
         /\ (mode = "running" => nops <= MaxOps + 6)

----------------------------------------------------------------------------
ById(S, i) == CHOOSE e \in S : e.eid = i
Eids(S) == {e.eid : e \in S}

(* C01 *)
ClockMonotone == [][K'.now >= K.now]_vars

AtMostOnce == NoDupRan(K)

(* Whatever ran in a step was a minimal, non-cancelled event of the queue as *)
(* it was before the step, and the clock shows its time.                      *)
RanWasMinimal ==
    [][\A j \in (Len(K.ran) + 1)..Len(K'.ran) :
          \E e \in MinEvents(K.queue) :
              /\ e.eid = K'.ran[j][1] /\ ~e.cancelled
              /\ K'.ran[j][2] = e.time /\ K'.now = e.time]_vars

AtMostOneRanPerStep == [][Len(K'.ran) <= Len(K.ran) + 1]_vars

(* a rejected schedule attempt creates no event *)
RejectedChangesNothing ==
    [][K'.nrej > K.nrej =>
          (Eids(K'.queue) \cup Eids(K'.paused)) \subseteq (Eids(K.queue) \cup Eids(K.paused))]_vars

RunCompletes == (mode = "running" /\ K.term) => RunComplete(K, runT0, runD)

(* during a run nothing later than the end of the run is executed *)
RunNotBeyond == mode = "running" => K.now <= runT0 + runD

(* C07 *)
(* an event that leaves the paused set keeps its remaining delay, every   *)
(* other event is untouched                                               *)
UnpausePreservesDelay ==
    [][\A i \in Eids(K.paused) \ Eids(K'.paused) :
          /\ i \in Eids(K'.queue)
          /\ ById(K'.queue, i).time - K'.now = ById(K.paused, i).time - ById(K.paused, i).pausedAt]_vars

PausedNeverRun ==
    [][\A j \in (Len(K.ran) + 1)..Len(K'.ran) : K'.ran[j][1] \notin Eids(K.paused)]_vars

CancelledNeverRuns ==
    [][\A j \in (Len(K.ran) + 1)..Len(K'.ran) :
          \A e \in K.queue \cup K.paused : e.eid = K'.ran[j][1] => ~e.cancelled]_vars

CancelIsForever ==
    [][\A e \in K.queue \cup K.paused : e.cancelled =>
          \A f \in K'.queue \cup K'.paused : f.eid = e.eid => f.cancelled]_vars

(* events are never lost: an event leaves queue+paused only by being popped *)
NothingVanishes ==
    [][Cardinality((Eids(K.queue) \cup Eids(K.paused)) \ (Eids(K'.queue) \cup Eids(K'.paused))) <= 1]_vars

(* generation of replayable behaviours *)
HistOut == (EmitHist /\ mode = "idle" /\ nops >= MaxOps) => PrintT(<<"HIST", ToJson(hist)>>)
=============================================================================
