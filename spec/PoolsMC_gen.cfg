SPECIFICATION Spec
CONSTANTS
  AddRes = {"A", "B"}
  Cbs = {0, 1, 2, 3, 4, 5}
  RunDurs = {0, 1, 2}
  MaxOps = 14
  MaxHold = 4
  MaxWait = 4
  ReqLevel = 2
  EmitHist = TRUE
CONSTRAINT Bound
CHECK_DEADLOCK FALSE
INVARIANT InvUsageIsHeld
INVARIANT InvCapNonNeg
INVARIANT InvCalledAtMostOnce
