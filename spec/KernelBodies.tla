---------------------------- MODULE KernelBodies ----------------------------
(* Program alphabet of event bodies.  GENERATED from harness/kernel_params.py *)
(* (the Python driver uses the same table); this copy is kept for reading and *)
(* for tla-sany.                                                              *)
EXTENDS Integers
Bodies == <<
  [code |-> "sched", a |-> 0, b |-> 70, c |-> 1, child |-> 0],
  [code |-> "sched", a |-> 1, b |-> 50, c |-> 2, child |-> 0],
  [code |-> "sched", a |-> 2, b |-> 55, c |-> 1, child |-> 1],
  [code |-> "pause", a |-> 1, b |-> 0, c |-> 0, child |-> 0],
  [code |-> "pause", a |-> 2, b |-> 0, c |-> 0, child |-> 0],
  [code |-> "unpause", a |-> 1, b |-> 0, c |-> 0, child |-> 0],
  [code |-> "unpause", a |-> 2, b |-> 0, c |-> 0, child |-> 0],
  [code |-> "cancel", a |-> 1, b |-> 0, c |-> 0, child |-> 0],
  [code |-> "cancel", a |-> 2, b |-> 0, c |-> 0, child |-> 0],
  [code |-> "sched", a |-> -1, b |-> 70, c |-> 1, child |-> 0],
  [code |-> "sched", a |-> 0, b |-> 110, c |-> 2, child |-> 4],
  [code |-> "sched", a |-> 0, b |-> 49, c |-> 1, child |-> 0],
  [code |-> "sched", a |-> 0, b |-> 20, c |-> 2, child |-> 6]
>>
=============================================================================
