SPECIFICATION Spec
CONSTANTS
  AddRes = {"A", "B"}
  Cbs = {0, 1, 2, 3, 4, 5}
  RunDurs = {0, 1}
  MaxOps = 6
  MaxHold = 2
  MaxWait = 3
  ReqLevel = 1
  EmitHist = FALSE
VIEW view
CONSTRAINT Bound
CHECK_DEADLOCK FALSE
INVARIANT InvUsageIsHeld
INVARIANT InvCapNonNeg
INVARIANT InvHoldNonNeg
INVARIANT InvOverOnlyAfterReduce
INVARIANT InvCalledAtMostOnce
PROPERTY QuiescentNoFeasibleWaiter
PROPERTY ChangeSchedulesCheck
PROPERTY CalledOnlyWhenFits
