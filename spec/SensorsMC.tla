----------------------------- MODULE SensorsMC -----------------------------
(***************************************************************************)
(* Closed specification of the sensors: the probed object changes, on-sense*)
(* callbacks and the condition-monitoring system are added before and      *)
(* between runs (also twice), the processor finishes a part every PC ticks.*)
(***************************************************************************)
EXTENDS Sensors, TLC, Json

CONSTANTS IVs, Caps, Ns, PC, RunDurs, MaxOps, MaxNow, EmitHist
VARIABLES W, mode, runEnd, nops, nextFin, hist
vars == <<W, mode, runEnd, nops, nextFin, hist>>
view == <<W, mode, runEnd, nops, nextFin>>

Init == /\ \E iv \in IVs, pc \in Caps, n \in Ns, qc \in Caps :
              /\ W = InitW(iv, pc, n, qc)
              /\ hist = <<[op |-> "cfg", iv |-> iv, pcap |-> pc, n |-> n, qcap |-> qc, grid |-> TRUE]>>
        /\ mode = "idle" /\ runEnd = 0 /\ nops = 0 /\ nextFin = PC

Rec(h) == /\ hist' = Append(hist, h) /\ nops' = nops + 1
Idle == mode = "idle" /\ nops < MaxOps
CbIds(z) == {z.cbs[i] : i \in DOMAIN z.cbs}

OpBump == /\ Idle /\ W' = Bump(W) /\ Rec([op |-> "bump"]) /\ UNCHANGED <<mode, runEnd, nextFin>>
OpAddCb == /\ Idle
           /\ \E s \in {"P", "Q"}, id \in 1..2 :
                /\ id \notin CbIds(IF s = "P" THEN W.P.z ELSE W.Q.z)
                /\ W' = AddCb(W, s, id)
                /\ Rec([op |-> "addcb", s |-> s, id |-> id])
           /\ UNCHANGED <<mode, runEnd, nextFin>>
OpCms == /\ Idle
         /\ \E s \in {"P", "Q"} : W' = CmsAdd(W, s) /\ Rec([op |-> "cms", s |-> s])
         /\ UNCHANGED <<mode, runEnd, nextFin>>
OpMSense == /\ Idle /\ W.started /\ W' = ManualSense(W) /\ Rec([op |-> "msense"]) /\ UNCHANGED <<mode, runEnd, nextFin>>
OpRun == /\ Idle
         /\ \E d \in RunDurs : runEnd' = W.now + d /\ Rec([op |-> "run", d |-> d])
         /\ mode' = IF W.started THEN "running" ELSE "starting"
         /\ UNCHANGED <<W, nextFin>>
RunStart == /\ mode = "starting" /\ W' = Start(W) /\ mode' = "running" /\ UNCHANGED <<runEnd, nops, nextFin, hist>>
(* FINISH_PROCESSING has a higher priority than SENSOR *)
FinStep == /\ mode = "running" /\ nextFin <= runEnd /\ nextFin <= W.P.next
           /\ W' = Finish([W EXCEPT !.now = nextFin], <<W.Q.nfin + 1, <<1>>>>)
           /\ nextFin' = nextFin + PC
           /\ UNCHANGED <<mode, runEnd, nops, hist>>
SenseStep == /\ mode = "running" /\ W.P.next <= runEnd /\ W.P.next < nextFin
             /\ W' = PSense(W)
             /\ UNCHANGED <<mode, runEnd, nops, nextFin, hist>>
RunEnd == /\ mode = "running" /\ nextFin > runEnd /\ W.P.next > runEnd
          /\ W' = [W EXCEPT !.now = runEnd] /\ mode' = "idle"
          /\ UNCHANGED <<runEnd, nops, nextFin, hist>>
Next == OpBump \/ OpAddCb \/ OpCms \/ OpMSense \/ OpRun \/ RunStart \/ FinStep \/ SenseStep \/ RunEnd
Spec == Init /\ [][Next]_vars
Bound == W.now <= MaxNow

----------------------------------------------------------------------------
InvBounded == Bounded(W.P.z, TRUE) /\ Bounded(W.Q.z, FALSE)
(* the k-th periodic measurement is taken exactly k intervals after the start *)
PeriodicTimes == [][W'.P.z.tcount > W.P.z.tcount => W'.now = W'.P.z.tcount * W.P.iv]_vars
(* the time series holds the most recent periodic measurement times *)
TimeSeriesRecent == \A i \in DOMAIN W.P.z.tser : W.P.z.tser[i] = (W.P.z.tcount - Len(W.P.z.tser) + i) * W.P.iv
(* first finished part, then every (n+1)-th *)
PartPattern == [][W'.Q.nfin > W.Q.nfin => ((W'.Q.z.count > W.Q.z.count) <=> (W.Q.nfin % (W.Q.n + 1) = 0))]_vars
(* stored values never change afterwards: each series only grows at its end and loses at its front *)
SeriesStable ==
    [][\A i \in DOMAIN W.P.z.ser :
          \/ W'.P.z.ser[i] = W.P.z.ser[i]
          \/ W'.P.z.ser[i] = Trim(Append(W.P.z.ser[i], W'.P.z.last[i]), W.P.z.cap)]_vars
CmsOnce == \A s \in W.cms : Cardinality({i \in DOMAIN (IF s = "P" THEN W.P.z.cbs ELSE W.Q.z.cbs) :
                                            (IF s = "P" THEN W.P.z.cbs ELSE W.Q.z.cbs)[i] = CmsId}) = 1
HistOut == (EmitHist /\ mode = "idle" /\ nops >= MaxOps) => PrintT(<<"HIST", ToJson(hist)>>)
=============================================================================
