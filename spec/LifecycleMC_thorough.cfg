SPECIFICATION Spec
CONSTANTS
  KindSet = {"handler", "sink", "qsensor", "builder"}
  RunDurs = {0, 2}
  MaxOps = 8
  MaxAssets = 4
  MaxSys = 2
  EmitHist = FALSE
VIEW view
CHECK_DEADLOCK FALSE
INVARIANT InvInitAtMostOnce
INVARIANT InvInitedOnceSimulated
INVARIANT OnlyLatestRuns
PROPERTY RegistrationIsForever
