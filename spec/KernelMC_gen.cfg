SPECIFICATION Spec
CONSTANTS
  Assets = {1, 2}
  Prios = {20, 49, 50, 55, 70, 110}
  Deltas = {0, 1, 2, 5}
  BodyChoices = {0, 1, 2, 3, 4, 5, 6, 7, 8, 9, 10, 11, 12, 13}
  RunDurs = {0, 1, 3, 6}
  MaxOps = 10
  MaxLive = 5
  MaxNow = 40
  EmitHist = TRUE
CONSTRAINT Bound
CHECK_DEADLOCK FALSE
INVARIANT HistOut
