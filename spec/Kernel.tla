------------------------------- MODULE Kernel -------------------------------
(***************************************************************************)
(* The event queue of simprocesd (model/simulation.py: Event, Environment). *)
(*                                                                         *)
(* Written to be bound: every public call of Environment and every         *)
(* dispatched event is one operator  Op(K, args) -> K'  over the kernel    *)
(* state record K.  The closed specification (KernelMC) and the trace      *)
(* specification (KernelTrace) both use these operators, so what TLC       *)
(* proves about the design and what it checks on recorded runs of the real *)
(* Environment is the same text.                                           *)
(*                                                                         *)
(* K = [now, queue, paused, nextEid, ran, nrej, term]                      *)
(*   queue, paused : sets of events                                        *)
(*       [eid, time, prio, asset, body, cancelled, pausedAt]               *)
(*   ran    : sequence of <<eid, time>>, one entry per action that ran     *)
(*   nrej   : number of schedule attempts rejected (time in the past)      *)
(*   term   : Environment._terminated                                      *)
(* prio is 10 * event_type (so FAIL - 0.1 is 49); TERMINATE is 10 and      *)
(* belongs to asset -1.  Event bodies come from the finite program         *)
(* alphabet Bodies (a table shared with the Python driver): a body may     *)
(* schedule a child, pause / unpause / cancel an asset, or try to schedule *)
(* into the past.                                                          *)
(***************************************************************************)
EXTENDS Integers, Sequences, FiniteSets, KernelBodies

TermPrio == 10
TermBody == -1

Range(s) == {s[i] : i \in DOMAIN s}

InitK == [now |-> 0, queue |-> {}, paused |-> {}, nextEid |-> 1, ran |-> <<>>,
          nrej |-> 0, term |-> TRUE]

(* Strict dispatch order: earlier time first, then higher priority.  Events  *)
(* equal in both are ordered by a random weight: any of them may be next.    *)
Before(e, f) == e.time < f.time \/ (e.time = f.time /\ e.prio > f.prio)
MinEvents(Q) == {e \in Q : \A f \in Q : ~Before(f, e)}

NewEv(K, t, p, a, b) ==
    [eid |-> K.nextEid, time |-> t, prio |-> p, asset |-> a, body |-> b,
     cancelled |-> FALSE, pausedAt |-> -1]

(* schedule_event: rejected (ValueError, nothing changes) iff t < now. *)
Sched(K, t, p, a, b) ==
    IF t < K.now THEN [K EXCEPT !.nrej = @ + 1]
    ELSE [K EXCEPT !.queue = @ \cup {NewEv(K, t, p, a, b)}, !.nextEid = @ + 1]

(* pause_matching_events *)
Pause(K, a) ==
    LET moved == {e \in K.queue : e.asset = a} IN
    [K EXCEPT !.queue = @ \ moved,
              !.paused = @ \cup {[e EXCEPT !.pausedAt = K.now] : e \in moved}]

(* unpause_matching_events: original time plus the length of the pause *)
Unpause(K, a) ==
    LET sel == {e \in K.paused : e.asset = a} IN
    [K EXCEPT !.paused = @ \ sel,
              !.queue = @ \cup {[e EXCEPT !.time = e.time + (K.now - e.pausedAt),
                                          !.pausedAt = -1] : e \in sel}]

(* cancel_matching_events: scheduled and paused events of the asset *)
Cancel(K, a) ==
    [K EXCEPT !.queue  = {IF e.asset = a THEN [e EXCEPT !.cancelled = TRUE] ELSE e : e \in @},
              !.paused = {IF e.asset = a THEN [e EXCEPT !.cancelled = TRUE] ELSE e : e \in @}]

BodyKind(b) == IF b = TermBody THEN "term"
               ELSE IF b = 0 THEN "nop"
               ELSE Bodies[b].code

RunBody(K, b) ==
    IF b = TermBody THEN [K EXCEPT !.term = TRUE]
    ELSE IF b = 0 THEN K
    ELSE LET B == Bodies[b] IN
         CASE B.code = "sched"   -> Sched(K, K.now + B.a, B.b, B.c, B.child)
           [] B.code = "pause"   -> Pause(K, B.a)
           [] B.code = "unpause" -> Unpause(K, B.a)
           [] B.code = "cancel"  -> Cancel(K, B.a)
           [] OTHER              -> K

(* Environment.step with e the popped event: the clock moves to the event,  *)
(* the action runs unless the event is cancelled.                            *)
StepCore(K, e) ==
    LET K1 == [K EXCEPT !.now = e.time, !.queue = @ \ {e}] IN
    IF e.cancelled \/ e.body = TermBody THEN K1    \* TERMINATE is observed through term, not ran
    ELSE [K1 EXCEPT !.ran = Append(@, <<e.eid, e.time>>)]

Step(K, e) == IF e.cancelled THEN StepCore(K, e) ELSE RunBody(StepCore(K, e), e.body)

(* Environment.run(d), first half: clear the flag, queue TERMINATE at now+d *)
RunBegin(K, d) == Sched([K EXCEPT !.term = FALSE], K.now + d, TermPrio, -1, TermBody)

(* What must hold when run(d) started at t0 returns. *)
RunComplete(K, t0, d) ==
    /\ K.now = t0 + d
    /\ K.term
    /\ \A e \in K.queue : ~(e.time < t0 + d \/ (e.time = t0 + d /\ e.prio > TermPrio))

NoDupRan(K) == \A i, j \in DOMAIN K.ran : K.ran[i][1] = K.ran[j][1] => i = j
=============================================================================
