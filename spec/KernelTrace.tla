----------------------------- MODULE KernelTrace -----------------------------
(***************************************************************************)
(* Trace specification for the kernel: validates runs recorded from the    *)
(* real simprocesd Environment against the operators of Kernel.tla.        *)
(*                                                                         *)
(* The trace file (NDJSON, env TRACE_FILE) holds many traces; line k of    *)
(* trace tid is  {tid, k, ev, st}: the call or dispatched event with its    *)
(* arguments and outcome, and the complete projected kernel state after    *)
(* it.  Because the state is fully logged the walk never branches.  Every  *)
(* line is judged against the logged state of the line before it, clause   *)
(* by clause, and each failed clause is printed as                         *)
(*        <<"FAIL", tid, k, clause>>                                       *)
(* so that verdicts are total (one bad line does not hide later ones).     *)
(* Clause names start with the property they belong to: dispatch and       *)
(* scheduling clauses are C01, pause / unpause / cancel clauses are C07.   *)
(***************************************************************************)
EXTENDS Kernel, TLC, Json, IOUtils

Log == ndJsonDeserialize(IOEnv.TRACE_FILE)

VARIABLE l

ToEv(r) == [eid |-> r.eid, time |-> r.time, prio |-> r.prio, asset |-> r.asset, body |-> r.body,
            cancelled |-> r.cancelled, pausedAt |-> r.pausedAt]
ToK(s) == [now |-> s.now, queue |-> {ToEv(r) : r \in Range(s.queue)},
           paused |-> {ToEv(r) : r \in Range(s.paused)}, nextEid |-> s.nextEid,
           ran |-> s.ran, nrej |-> s.nrej, term |-> s.term]

C(name, ok) == IF ok THEN {} ELSE {name}

PauseKinds == {"pause", "unpause", "cancel"}

StepClauses(pre, ev, post) ==
    LET cand == {e \in pre.queue : e.eid = ev.eid} IN
    IF Cardinality(cand) # 1 THEN {"C01.PoppedNotQueued"}
    ELSE LET e == CHOOSE x \in cand : TRUE
             core == StepCore(pre, e)
         IN  C("C01.StepMin", e \in MinEvents(pre.queue))
             \cup C("C01.StepClock", post.now = e.time)
             \cup C("C01.RunNotBeyond", ev.runEnd >= 0 => post.now <= ev.runEnd)
             \cup (IF ~e.cancelled /\ BodyKind(e.body) \in PauseKinds
                   THEN \* judge the kernel part and the pause part separately
                        C("C01.StepCore", /\ post.ran = core.ran /\ post.term = core.term
                                           /\ post.nrej = core.nrej /\ post.nextEid = core.nextEid)
                        \cup LET base == [core EXCEPT !.now = post.now]
                                 exp == RunBody(base, e.body) IN
                             C("C07.Body_" \o BodyKind(e.body),
                               post.queue = exp.queue /\ post.paused = exp.paused)
                   ELSE C("C01.StepFn", post = Step(pre, e)))

OpClauses(pre, ev, post) ==
    CASE ev.op = "step"      -> StepClauses(pre, ev, post)
      [] ev.op = "sched"     -> C("C01.SchedFn", post = Sched(pre, ev.time, ev.prio, ev.asset, ev.body))
                                \cup C("C01.SchedOutcome", ev.ok = (ev.time >= pre.now))
      [] ev.op = "run_begin" -> C("C01.RunBeginFn", post = RunBegin(pre, ev.d))
      [] ev.op = "run_end"   -> C("C01.RunComplete", RunComplete(post, ev.t0, ev.d))
                                \cup C("C01.RunEndNoChange", post = pre)
      [] ev.op = "pause"     -> C("C07.PauseFn", post = Pause(pre, ev.asset))
      [] ev.op = "unpause"   -> C("C07.UnpauseFn", post = Unpause(pre, ev.asset))
      [] ev.op = "cancel"    -> C("C07.CancelFn", post = Cancel(pre, ev.asset))
      [] OTHER               -> {"X.UnknownOp"}

Failed(i) ==
    IF Log[i].k = 0 THEN C("C01.Init", ToK(Log[i].st) = InitK)
    ELSE LET pre == ToK(Log[i - 1].st) post == ToK(Log[i].st) ev == Log[i].ev IN
         OpClauses(pre, ev, post)
         \cup C("C01.ClockMonotone", post.now >= pre.now)
         \cup C("C01.AtMostOnce", NoDupRan(post))

Report(i) == \A c \in Failed(i) : PrintT(<<"FAIL", Log[i].tid, Log[i].k, c>>)

Init == l = 1 /\ Report(1)
Next == /\ l < Len(Log)
        /\ l' = l + 1
        /\ Report(l + 1)
        /\ (l + 1 = Len(Log) => PrintT(<<"DONE", Len(Log)>>))
Spec == Init /\ [][Next]_l
=============================================================================
