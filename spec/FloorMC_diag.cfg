SPECIFICATION Spec
CONSTANT SampleEvery = 1000000
VIEW view
CHECK_DEADLOCK FALSE
PROPERTY Diagnose
